"""C07 -- a response split into two fragments is reassembled exactly."""
from __future__ import annotations
from ..runner import Stage
from .. import respcases as R
from .protoprop import spec


def stage_translation(ctx):
    """generated validators vs Python on every proper prefix of valid read answers (the 'partial' outcome)"""
    def pick(cmd):
        if cmd.spec['op'] not in ('read', 'aa55'): return []
        fr = R.valid_frame(cmd)
        ks = range(len(fr)) if (ctx.deep or len(fr) <= 30) else sorted(set(list(range(0, 14)) + [len(fr) - 1, len(fr) - 2] + [ctx.rng.randrange(len(fr)) for _ in range(5)]))
        return [(f'prefix{k}', fr[:k]) for k in ks]
    return R.translation_stage(ctx, 'c07', pick, Stage)


SPEC = spec(
    'C07',
    ['C07_datagram_received_is_the_model', 'C07_data_received_is_the_model',
     'C07_rtu_prefix_is_partial', 'C07_tcp_prefix_is_partial', 'C07_aa55_prefix_is_partial', 'C07_fragment_is_stored_no_retransmission',
     'C07_exact_remainder_is_appended_and_delivered', 'C07_other_lengths_are_never_appended', 'C07_each_transmission_starts_without_fragment',
     'C07_reassembled_data_was_validated'],
    text='Refinement theorems re-proved on every run: the model functions used below ARE the current source of the corresponding synchronous methods of protocol.py (translated by tools/cb2v.py into the statement language of Model/Callbacks.v, fail-closed): datagram_received, data_received. '
         'Byte level (validators translated from /repo on this run): for every read count and payload, every proper prefix of a '
         'valid answer that contains the header (>= 5 bytes RTU, >= 9 bytes TCP/AA55) is "partial" with exactly the full length.  '
         'Protocol model (trace-validated): a partial verdict stores the fragment and re-arms the timer without transmitting; a '
         'chunk of exactly the missing length is appended and delivered iff the validator accepts the concatenation (hence '
         'checksum-correct by C01); other lengths are never appended; every transmission clears the fragment buffer.  Monitors '
         'run all split points x delays x second-piece variants {exact, +1 byte, -1 byte, corrupted, foreign answer, missing} on '
         'the real classes.',
    note='The theorems about the model are one-step characterisations of datagram_received/data_received/_send_request plus the '
         'whole-run delivery theorem; "second piece within the timeout" is checked by the monitors on the virtual clock.',
    technique='Coq proof over regenerated validators + one-step Coq lemmas on a trace-validated hand model + split-point enumeration',
    design='DESIGN.md section 5 (C07)',
    rule='framings RTU/TCP/AA55 x read counts x every split point (sampled for long frames in quick) x delay {0, in time, after '
         'timeout} x second piece variant x keep-alive; lone-fragment-then-retransmission scenarios',
    extra_stages=[stage_translation],
)

"""C08 -- Modbus exception answers surface at once as RequestRejectedException(reason)."""
from __future__ import annotations
import ast, os
from ..runner import Stage, REPO
from .. import frames as F, respcases as R
from .protoprop import spec


def stage_translation(ctx):
    def pick(cmd):
        if cmd.spec['kind'] == 'aa55': return []
        codes = range(256) if ctx.deep else list(range(0, 13)) + [16, 17, 128, 255]
        out = []
        for code in codes:
            for fn in (3, 6, 16):
                fr = F.rtu_exc_resp(cmd.spec['addr'], fn, code) if cmd.spec['kind'] == 'rtu' else F.tcp_exc_resp(7, cmd.spec['addr'], fn, code)
                out.append((f'exc fn{fn} code{code}', fr))
        return out[:: (1 if ctx.deep else 3)]
    return R.translation_stage(ctx, 'c08', pick, Stage)


def stage_callers(ctx):
    """et.py / dt.py detect unsupported blocks by comparing ex.message with the constant of modbus.py"""
    st = Stage('callers-compare-the-constant')
    import goodwe.modbus as M
    if M.ILLEGAL_DATA_ADDRESS != 'ILLEGAL DATA ADDRESS':
        st.violation('constant', f'ILLEGAL_DATA_ADDRESS is {M.ILLEGAL_DATA_ADDRESS!r}', dict(value=M.ILLEGAL_DATA_ADDRESS))
    if M.FAILURE_CODES.get(2) != M.ILLEGAL_DATA_ADDRESS:
        st.violation('constant', f'FAILURE_CODES[2] is {M.FAILURE_CODES.get(2)!r}', dict(value=M.FAILURE_CODES.get(2)))
    for f in ('et.py', 'dt.py', 'es.py'):
        tree = ast.parse(open(os.path.join(REPO, 'goodwe', f)).read())
        imported = any(isinstance(n, ast.ImportFrom) and n.module == 'modbus' and any(a.name == 'ILLEGAL_DATA_ADDRESS' for a in n.names) for n in tree.body)
        for n in ast.walk(tree):
            if isinstance(n, ast.Compare) and isinstance(n.left, ast.Attribute) and n.left.attr == 'message':
                st.case((f, n.lineno), sample=dict(file=f, line=n.lineno, code=ast.unparse(n)))
                c = n.comparators[0]
                ok = len(n.ops) == 1 and isinstance(n.ops[0], ast.Eq) and isinstance(c, ast.Name) and c.id == 'ILLEGAL_DATA_ADDRESS' and imported
                if not ok:
                    st.violation('caller-literal', f'{f}:{n.lineno}: `{ast.unparse(n)}` does not compare with modbus.ILLEGAL_DATA_ADDRESS',
                                 dict(file=f, line=n.lineno, code=ast.unparse(n)))
    st.case('constant')
    return st


SPEC = spec(
    'C08',
    ['C08_reason_table', 'C08_illegal_data_address_text', 'C08_rtu_exception_frames', 'C08_tcp_exception_frames',
     'C08_rejected_completes_the_request_at_once', 'C08_failure_is_final', 'C08_caller_gets_rejected_without_retransmission'],
    text='Byte level (translated from /repo on this run): the reason table equals the Modbus specification table for all codes '
         '(others: UNKNOWN), the constant is exactly "ILLEGAL DATA ADDRESS", and for every code 0..255, every command class and '
         'function, the exception frame (function|0x80, CRC) makes the validator raise "rejected" with that reason.  Protocol '
         'model (trace-validated): a rejected verdict fails the pending future in the same callback, nothing is transmitted, '
         'the failure is final, and the caller\'s task reports RequestRejectedException(reason) without another attempt -- '
         'independent of the retry counter.  Monitors: every code (quick: 22 codes) x UDP/TCP x keep-alive, also after earlier '
         'timeouts; completion at the virtual time of the arrival; et.py/dt.py compare with the constant.',
    note='The "at once" part is the conjunction of the one-step model lemmas and the time monitor; AA55 has no exception frames.',
    technique='Coq proof over regenerated validators/table + one-step Coq lemmas on a trace-validated hand model + monitors',
    design='DESIGN.md section 5 (C08)',
    rule='exception codes (all 256 in thorough) x {UDP-RTU, TCP} x keep-alive, after 0..2 timeouts / garbage / fragments, '
         'consecutive rejected probes',
    extra_stages=[stage_translation, stage_callers],
)

"""C09 -- failures surface only as InverterError, with a correct consecutive-failure count."""
from __future__ import annotations
import asyncio, importlib, itertools
from ..runner import Stage
from .. import vloop as V, peer as PEER, coqrun as C
from .protoprop import spec


def _reload():
    for m in ('goodwe.exceptions', 'goodwe.modbus', 'goodwe.protocol', 'goodwe.inverter', 'goodwe.sensor', 'goodwe.et', 'goodwe.es', 'goodwe.dt', 'goodwe'):
        importlib.reload(importlib.import_module(m))
    import goodwe
    return goodwe


def stage_count(ctx):
    """Model/FailCount.v against the real Inverter._read_from_socket: every history of outcomes up to a length"""
    st = Stage('failure-count-correspondence')
    goodwe = _reload()
    from goodwe import exceptions as X
    L = 5 if not ctx.deep else 7
    kinds = 'SFMR'      # success, RequestFailedException, MaxRetriesException, RequestRejectedException

    class Cmd:
        def __init__(self, kind): self.kind = kind
        async def execute(self, protocol):
            if self.kind == 'S': return object()
            if self.kind == 'F': raise X.RequestFailedException('no answer')
            if self.kind == 'M': raise X.MaxRetriesException()
            raise X.RequestRejectedException('ILLEGAL DATA ADDRESS')

    cases, gcases, descr = [], [], []
    for n in range(1, L + 1):
        for h in itertools.product(kinds, repeat=n):
            inv = goodwe.ET('192.0.2.1', 8899)
            got = []
            for kd in h:
                try:
                    asyncio.run(inv._read_from_socket(Cmd(kd)))
                    got.append(0)
                    if kd != 'S': st.violation('count', f'history {"".join(h)}: outcome {kd} returned normally', dict(history=''.join(h)))
                except X.RequestFailedException as ex:
                    got.append(ex.consecutive_failures_count)
                    if kd not in 'FM': st.violation('count', f'history {"".join(h)}: outcome {kd} raised RequestFailedException', dict(history=''.join(h)))
                except X.RequestRejectedException:
                    got.append(0)
                    if kd != 'R': st.violation('count', f'history {"".join(h)}: outcome {kd} raised RequestRejectedException', dict(history=''.join(h)))
                except BaseException as ex:     # noqa
                    got.append(99)
                    st.violation('count-exception', f'history {"".join(h)}: _read_from_socket raised {type(ex).__name__}', dict(history=''.join(h)))
            # independent statement of the property on the implementation's own output
            run_len = 0
            for kd, g in zip(h, got):
                if kd == 'S': run_len = 0
                elif kd in 'FM':
                    run_len += 1
                    if g != run_len:
                        st.violation('count', f'history {"".join(h)}: consecutive_failures_count {g}, expected {run_len}', dict(history=''.join(h), reported=got))
                        break
            term = '[' + ';'.join({'S': 'RSucc', 'F': 'RFail', 'M': 'RFail', 'R': 'RRej'}[k] for k in h) + ']'
            cases.append((f'map (fun o => match o with Some n => Z.of_nat n | None => 0 end) (count_run 0 {term})', got))
            # the same history through the shape generated from the current source (Gen/InverterGen.v)
            gterm = '[' + ';'.join({'S': '(RSucc,true)', 'F': '(RFail,false)', 'M': '(RFail,true)', 'R': '(RRej,true)'}[k] for k in h) + ']'
            gcases.append((f'map (fun o => match o with Some n => Z.of_nat n | None => 0 end) (run_calls 0 {gterm})', got))
            descr.append(''.join(h))
            st.case(h, sample=dict(history=''.join(h), reported_counts=got))
    bad, err = C.eval_cases('c09cnt', 'FailCount', cases, shard=700)
    if err: st.violation('count-eval', f'model evaluation failed: {err[:300]}', dict(error=err), no_input=True)
    for i in bad[:5]:
        st.violation('count-mismatch', f'Model/FailCount.v and _read_from_socket disagree on history {descr[i]}: implementation {cases[i][1]}',
                     dict(history=descr[i], implementation=cases[i][1]), no_input=True)
    bad, err = C.eval_cases('c09gen', 'FailCount InvProg InverterGen InvProgInst', gcases, shard=700)
    if err: st.violation('count-eval', f'evaluation of the generated shape failed: {err[:300]}', dict(error=err), no_input=True)
    for i in bad[:5]:
        st.violation('count-mismatch', f'the shape generated from _read_from_socket (Gen/InverterGen.v) and the method itself disagree on history {descr[i]}: implementation {gcases[i][1]}',
                     dict(history=descr[i], implementation=gcases[i][1]), no_input=True)
    st.stats['exhaustive_to_length'] = L
    return st


PATTERNS = [bytes([0x80]), bytes([0xff]), bytes([0x00]), bytes([0x00, 0x39, 0xd8, 0x00, 0x00, 0x30]), bytes([0xd8, 0x00]), bytes([0x1f, 0x80]),
            bytes([0x41, 0x00, 0xdc, 0x00]), bytes(range(1, 32)), b'GW5048D-ES\xff\xfe', bytes([0xc3, 0x28, 0xa0, 0xa1]), b'\x00\xd8', b'\xdf\xff\x00']


def stage_decode(ctx):
    """checksum-valid discovery / device-info payloads with arbitrary bytes: a value or an InverterError, nothing else"""
    st = Stage('identification-data')
    pats = PATTERNS + [bytes(ctx.rng.randrange(256) for _ in range(ctx.rng.randrange(1, 9))) for _ in range(6 if not ctx.deep else 60)]
    calls = [('discover', dict(host='192.0.2.7', port=8899, timeout=1, retries=0))] + \
            [('connect', dict(host='192.0.2.7', port=p, family=f, timeout=1, retries=0)) for f in ('ET', 'ES', 'DT') for p in (8899, 502)]
    # well-formed identification payloads with ONE text field at a time replaced: shorter content padded with blanks / NULs, digits of every length,
    # letters, blanks only (firmware / model / serial fields of the three families; offsets as read_device_info slices them)
    FIELDS = [(0, 5), (5, 15), (31, 47), (51, 63), (6, 22), (22, 32), (0, 16)]
    texts = [b'', b' ', b'1', b'12', b'123', b'1234', b'12345', b'123456', b'1234 ', b'12 ', b'AB', b'2314E', b'GW5048D-ES', b'\x00', b'12\x00\x00', b'9010KETU123W0001']
    structured = []
    for lo, hi in FIELDS:
        for t in texts:
            for pad in (b' ', b'\x00'):
                structured.append((lo, hi, (t + pad * (hi - lo))[: hi - lo]))
    if not ctx.deep: structured = [structured[i] for i in sorted(ctx.rng.sample(range(len(structured)), 40))] + [(0, 5, b'1234 '), (0, 5, b'12   '), (0, 5, b'     ')]
    pats = [(p, None) for p in pats] + [(b'GW5048D-ES 2314E', f) for f in structured]
    for pat, field in pats:
        def payload(reg, count, pat=pat, field=field):
            n = 2 * count
            out = bytearray((pat * (n // len(pat) + 1))[:n])
            if field is not None:
                base = bytearray(b'2314EGW5048D-ES' + b' ' * 16 + b'95048ESU123W0001' + b'    ' + b'02041-14-S00' + b' ' * 40)[:n].ljust(n, b' ')
                out = base
                lo, hi, val = field
                if hi <= n: out[lo:hi] = val
            return bytes(out)
        pat = pat if field is None else b'field %d..%d = ' % (field[0], field[1]) + field[2]
        for name, kw in calls:
            goodwe = _reload()
            script = PEER.Script('', default='N', timeout=1, payload_fn=payload)
            loop = V.VLoop(); loop.peer_factory = PEER.factory(script)

            async def main(lp):
                try:
                    inv = await getattr(goodwe, name)(**kw)
                    return ('ok', type(inv).__name__)
                except BaseException as ex:      # noqa
                    return ('exc', ex)
            try:
                lp, out = V.run(main, loop)
            except Exception as ex:
                st.violation('harness-crash', f'{name}({kw}) with pattern {pat.hex()}: {type(ex).__name__}: {ex}', dict(call=name, kwargs=kw, pattern=pat.hex()), no_input=True)
                continue
            st.case((name, tuple(sorted(kw.items())), pat), sample=dict(call=name, kwargs=kw, pattern=pat.hex(), outcome=repr(out[1])[:80]))
            res = out[1] if out[0] == 'ok' else None
            if out[0] == 'hang':
                st.violation('hang', f'{name}({kw}) with pattern {pat.hex()} hangs', dict(call=name, kwargs=kw, pattern=pat.hex()))
            elif isinstance(res, tuple) and res[0] == 'exc':
                ex = res[1]
                import goodwe.exceptions as X
                if not isinstance(ex, X.InverterError):
                    st.violation('foreign-exception', f'{name}({kw}) with identification bytes {pat.hex()}.. raised {type(ex).__name__}: {ex}',
                                 dict(call=name, kwargs=kw, pattern=pat.hex()))
            if loop.loop_exceptions:
                st.violation('loop-exception', f'{name}({kw}) with pattern {pat.hex()}: exception in a loop callback {loop.loop_exceptions[0]}',
                             dict(call=name, kwargs=kw, pattern=pat.hex()))
    return st


SPEC = spec(
    'C09',
    ['C09_read_from_socket_is_the_model', 'C09_read_from_socket_failure', 'C09_read_from_socket_other', 'C09_read_from_socket_stays_in_family',
     'C09_execute_catches_is_the_model',
     'C09_udp_error_received_is_the_model', 'C09_tcp_error_received_is_the_model',
     'C09_reported_count', 'C09_first_failure_after_success_reports_one', 'C09_exceptions_are_mapped', 'C09_reported_outcome_is_the_mapped_one',
     'C09_no_exception_in_loop_callbacks', 'C09_loop_exception_is_expressible'],
    text='Refinement theorems re-proved on every run: the model functions used below ARE the current source of the corresponding synchronous methods of protocol.py (translated by tools/cb2v.py into the statement language of Model/Callbacks.v, fail-closed): error_received. '
         'Coq theorem C09_reported_count: for every history of request outcomes of any length, the count carried by the '
         'RequestFailedException of a failing request equals the number of failed requests since the last success (model of '
         'Inverter._read_from_socket, compared with the real method on ALL histories up to length 5 (quick) / 7 (thorough) over '
         '{success, RequestFailed, MaxRetries, Rejected}).  C09_no_exception_in_loop_callbacks: NO run of the protocol model (any callers, any I/O / '
         'timer / OS-error / close() / new-loop events, any fault oracle) contains an exception in an event-loop callback (invariant: callbacks '
         'that dereference the command / response_future are scheduled only after the first transmission; the retry recursion never runs out '
         'of fuel).  Protocol model (trace-validated): execute() maps every exception '
         'that can reach it to an outcome of the InverterError family.  Monitors on the fault scripts of C04 plus OS errors '
         '(ECONNREFUSED/EHOSTUNREACH through error_received / connection_lost, send errors, connect failures): only InverterError '
         'exceptions reach the caller and no exception is left in a loop callback; checksum-valid identification payloads with '
         'arbitrary (non-ASCII, ill-formed UTF-16) bytes through discover()/connect() give a value or an InverterError.',
    note='The model emits ALoopExc exactly where the code would dereference a missing command / future (and for out-of-fuel); exceptions '
         'of other origins inside callbacks (e.g. inside asyncio itself) are outside the model and covered by the loop-exception-handler '
         'monitor on the real runs only.',
    technique='Coq proof on hand models (failure counter -- refined by the generated shape of _read_from_socket; exception mapping) + exhaustive correspondence on histories + trace validation + monitors',
    design='DESIGN.md section 5 (C09)',
    rule='histories: all sequences over 4 outcome kinds up to length 5/7; fault scripts as C04 + OS-error letters; identification '
         'payload patterns x {discover, connect(ET/ES/DT) x UDP/TCP}',
    extra_stages=[stage_count, stage_decode],
    extra_tb=['Model/FailCount.v (hand model of Inverter._read_from_socket, compared exhaustively on short histories)'],
)

"""C10 -- at most one transport is open per inverter and none is leaked."""
from .protoprop import spec

SPEC = spec(
    'C10',
    ['C10_ensure_lock_is_the_model', 'C10_tcp_close_is_the_model',
     'C10_close_transport_is_the_model', 'C10_connection_made_is_the_model', 'C10_connection_lost_is_the_model', 'C10_eof_received_is_the_model',
     'C10_at_most_one_open_transport', 'C10_open_transport_is_referenced', 'C10_nothing_open_after_request', 'C10_nothing_open_after_close',
     'C10_close_transport_forgets', 'C10_nothing_referenced_after_request', 'C10_transport_opens', 'C10_everything_closed_at_the_end'],
    text='Refinement theorems re-proved on every run: the model functions used below ARE the current source of the corresponding synchronous methods of protocol.py (translated by tools/cb2v.py into the statement language of Model/Callbacks.v, fail-closed): _close_transport, connection_made, connection_lost, eof_received. '
         'Coq theorems over ALL runs of the protocol model (any callers, any interleaving of loop callbacks, I/O, timers, OS errors, '
         'close() calls, loop changes, any fault oracle): in every state at most one transport is open (created and not closing); every '
         'open transport is the one the protocol object references or the one being connected by the caller that holds the lock (no '
         'leak); when a request reports to its caller with keep-alive off nothing is open; after close() nothing is open '
         '(Proofs/ProtoTransport.v: invariant including the FIFO order of the connection_made / add_reader / waiter handles of a new '
         'transport, built on the lock invariant).  The model tracks every transport (new / up / closing / gone / orphaned by a closed '
         'loop) and is replayed callback by callback against the real classes, whose sockets (AF_UNIX socketpairs under real asyncio '
         'selector transports) are counted after every callback.  Monitors on sequences of requests, close() calls and event-loop '
         'changes under the full fault alphabet: never more than one transport that is not closing, nothing open at rest with '
         'keep-alive off or after close(), the same transport reused by consecutive successful requests with keep-alive on, and a '
         'promptly answered request succeeds after any outcome.',
    note='"Open" is read as "not closing": asyncio releases the file descriptor of a closed transport one loop iteration later, so a '
         'closing and a new socket coexist for one iteration (at most 2 descriptors).  The lock-free close() of a UDP object leaves '
         'nothing open provided no other caller is connecting at that moment (stated in the theorem).  Reuse with keep-alive on and '
         '"the next request reconnects and works" (liveness) are monitor claims.  Not exhibited: kernel fd accounting, GC of transports '
         'orphaned by a closed loop.',
    technique='Coq invariant proof (Proofs/ProtoTransport.v) over a trace-validated model + fault/close/new-loop sequence enumeration with monitors',
    design='DESIGN.md section 5 (C10)',
    level='proof',
    rule='seeded sequences of 2..4 requests / close() calls x fault letters x optional second and third event loop; recovery '
         'scenarios for every letter x UDP/TCP x keep-alive',
)

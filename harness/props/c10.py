"""C10 -- at most one transport is open per inverter and none is leaked."""
from .protoprop import spec

SPEC = spec(
    'C10',
    ['C10_close_transport_forgets', 'C10_nothing_referenced_after_request'],
    text='The protocol model tracks every transport (new / up / closing / gone / orphaned by a closed loop) and the sockets that '
         'are open; it is replayed callback by callback against the real classes, whose sockets (AF_UNIX socketpairs under real '
         'asyncio selector transports) are counted after every callback.  Monitors on sequences of requests, close() calls and '
         'event-loop changes under the full fault alphabet: never more than one transport that is not closing, nothing open at '
         'rest with keep-alive off or after close(), the same transport reused by consecutive successful requests with '
         'keep-alive on, and a promptly answered request succeeds after any outcome.  Coq theorems are one-step facts '
         '(_close_transport forgets the transport; nothing is referenced when a request is reported with keep-alive off).',
    note='Partial: whole-run statements rest on trace validation + monitors. "Open" is read as "not closing": asyncio releases '
         'the file descriptor of a closed transport one loop iteration later, so a closing and a new socket coexist for one '
         'iteration (at most 2 descriptors). Not exhibited: kernel fd accounting, GC of transports orphaned by a closed loop.',
    technique='trace-validated Coq model + one-step Coq lemmas + fault/close/new-loop sequence enumeration with monitors',
    design='DESIGN.md section 5 (C10)',
    level='model_checking',
    rule='seeded sequences of 2..4 requests / close() calls x fault letters x optional second and third event loop; recovery '
         'scenarios for every letter x UDP/TCP x keep-alive',
)

"""C10 -- at most one transport is open per inverter and none is leaked."""
from .protoprop import spec
from ..runner import Stage


def stage_inverter_transports(ctx):
    """the inverter API END TO END (real protocol classes on the virtual-time loop, simulated inverter): after every call -- successful or failed -- of an
    object used with keep-alive off nothing is open; with keep-alive on at most one transport.  Histories with a register block the inverter never answers
    (the call fails) followed by calls that succeed; ET / DT / ES, UDP and Modbus/TCP"""
    st = Stage('inverter-level-transport-monitor')
    from .. import siminv as SI, invmon as IM
    fams = [('ET', 8899), ('ET', 502), ('DT', 8899), ('DT', 502), ('ES', 8899)]
    silent = {'ET': [(35100, 35224), (37000, 37023), (47547, 47552), ()], 'DT': [(30100, 30172), (30195, 30209), ()], 'ES': [()]}
    for fam, port in fams:
        for ka in (False, True):
            for sil in silent[fam]:
                goodwe = SI.reload_goodwe()
                with SI.e2e():
                    if fam == 'ET': inv, sim = IM.make_et(goodwe, IM.ET_SERIALS['205 three-phase'], 10000, (), 2, seed=ctx.rng.randrange(1 << 30), arm_fw=22, port=port)
                    elif fam == 'DT': inv, sim = IM.make_dt(goodwe, IM.DT_SERIALS['three-phase'], seed=ctx.rng.randrange(1 << 30), port=port)
                    else: inv, sim = IM.make_es(goodwe, IM.ES_SERIALS['ESU'], seed=ctx.rng.randrange(1 << 30))
                    if ka: inv.set_keep_alive(True)
                    calls = [('read_device_info', ()), ('read_runtime_data', ()), ('read_runtime_data', ()), ('read_setting', ('work_mode',) if fam != 'DT' else ('grid_export_limit',)),
                             ('read_runtime_data', ()), ('get_grid_export_limit', ())]
                    cfg = dict(family=fam, port=port, keep_alive=ka, never_answered=list(sil))
                    for i, (meth, args) in enumerate(calls):
                        sim.silent = [sil] if (sil and i in (1,)) else []          # the second call meets the silent block, the others are answered
                        try: IM.run(getattr(inv, meth)(*args)); outcome = 'ok'
                        except Exception as ex: outcome = type(ex).__name__          # noqa
                        n_open = SI.E2E.get('open_after_return')
                        st.case((fam, port, ka, sil, i), sample=dict(config=cfg, call=meth, outcome=outcome, open_transports=n_open) if len(st.samples) < 4 else None)
                        if n_open is None: continue
                        if not ka and n_open != 0:
                            st.violation('leak', f'{fam} port {port} keep-alive off: {n_open} transport(s) still open after call {i + 1} {meth}{args} returned ({outcome}); '
                                                 f'history: call 2 met a block the inverter never answers {list(sil)}', dict(config=cfg, call=i + 1, method=meth, outcome=outcome))
                        if n_open > 1:
                            st.violation('two-transports', f'{fam} port {port}: {n_open} transports open after call {i + 1} {meth}{args}', dict(config=cfg, call=i + 1))
    return st


SPEC = spec(
    'C10',
    ['C10_keep_alive_is_set_by_the_user_only', 'C10_ensure_lock_is_the_model', 'C10_tcp_close_is_the_model',
     'C10_close_transport_is_the_model', 'C10_connection_made_is_the_model', 'C10_connection_lost_is_the_model', 'C10_eof_received_is_the_model',
     'C10_at_most_one_open_transport', 'C10_open_transport_is_referenced', 'C10_nothing_open_after_request', 'C10_nothing_open_after_close',
     'C10_close_transport_forgets', 'C10_nothing_referenced_after_request', 'C10_transport_opens', 'C10_everything_closed_at_the_end'],
    text='Refinement theorems re-proved on every run: the model functions used below ARE the current source of the corresponding synchronous methods of protocol.py (translated by tools/cb2v.py into the statement language of Model/Callbacks.v, fail-closed): _close_transport, connection_made, connection_lost, eof_received. '
         'Coq theorems over ALL runs of the protocol model (any callers, any interleaving of loop callbacks, I/O, timers, OS errors, '
         'close() calls, loop changes, any fault oracle): in every state at most one transport is open (created and not closing); every '
         'open transport is the one the protocol object references or the one being connected by the caller that holds the lock (no '
         'leak); when a request reports to its caller with keep-alive off nothing is open; after close() nothing is open '
         '(Proofs/ProtoTransport.v: invariant including the FIFO order of the connection_made / add_reader / waiter handles of a new '
         'transport, built on the lock invariant).  The model tracks every transport (new / up / closing / gone / orphaned by a closed '
         'loop) and is replayed callback by callback against the real classes, whose sockets (AF_UNIX socketpairs under real asyncio '
         'selector transports) are counted after every callback.  Monitors on sequences of requests, close() calls and event-loop '
         'changes under the full fault alphabet: never more than one transport that is not closing, nothing open at rest with '
         'keep-alive off or after close(), the same transport reused by consecutive successful requests with keep-alive on, and a '
         'promptly answered request succeeds after any outcome.',
    note='"Open" is read as "not closing": asyncio releases the file descriptor of a closed transport one loop iteration later, so a '
         'closing and a new socket coexist for one iteration (at most 2 descriptors).  The lock-free close() of a UDP object leaves '
         'nothing open provided no other caller is connecting at that moment (stated in the theorem).  Reuse with keep-alive on and '
         '"the next request reconnects and works" (liveness) are monitor claims.  Not exhibited: kernel fd accounting, GC of transports '
         'orphaned by a closed loop.',
    technique='Coq invariant proof (Proofs/ProtoTransport.v) over a trace-validated model + fault/close/new-loop sequence enumeration with monitors',
    design='DESIGN.md section 5 (C10)',
    extra_stages=[stage_inverter_transports],
    level='proof',
    rule='seeded sequences of 2..4 requests / close() calls x fault letters x optional second and third event loop; recovery '
         'scenarios for every letter x UDP/TCP x keep-alive',
)

"""C11 -- decoding is total: every sensor is reported, undecodable values become None."""
from __future__ import annotations
import asyncio
from ..runner import Stage
from .. import sensorcorr as SC, siminv as SI, invmon as IM
from . import sensorprop as SP


def stage_monitor(ctx):
    """the real classes on arbitrary register contents: read_runtime_data (all families) and read_settings_data (ET, ES) return
    every id; only ValueError may come out of the single-value calls"""
    st = Stage('total-decoding-monitor')
    goodwe = SI.reload_goodwe()
    fills = [0, 0xFFFF, 0x7FFF, 0x8000, 0xFFFE, 0x0101, 0x1000, 0x80C0, None, None] + ([None] * (4 if not ctx.deep else 60))
    for fill in fills:
        objs = [('ET', ) + IM.make_et(goodwe, IM.ET_SERIALS['745 HV'], 15000, (), 2, seed=ctx.rng.randrange(1 << 30)),
                ('ET', ) + IM.make_et(goodwe, IM.ET_SERIALS['205 single-phase'], 5000, ('eco_v2', 'peak_shaving'), 2, seed=ctx.rng.randrange(1 << 30)),
                ('DT', ) + IM.make_dt(goodwe, IM.DT_SERIALS['three-phase'], False, seed=ctx.rng.randrange(1 << 30)),
                ('ES', ) + IM.make_es(goodwe, IM.ES_SERIALS['ESU'], '2314E', seed=ctx.rng.randrange(1 << 30))]
        for fam, inv, sim in objs:
            asyncio.run(inv.read_device_info())
            sim.fill = fill
            if fam == 'ES' and fill is not None:
                sim.runtime[:] = bytes([fill >> 8, fill & 255] * 75); sim.settings[:] = bytes([fill >> 8, fill & 255] * 45)
            if fam == 'ET' and fill is not None:
                for a in list(sim.regs):
                    if a >= 35100: del sim.regs[a]
            cfg = dict(family=fam, fill=fill, seed=sim.salt)
            st.case((fam, fill, sim.salt), sample=cfg if len(st.samples) < 3 else None)
            for meth in ('read_runtime_data',) + (('read_settings_data',) if fam in ('ET', 'ES') else ()):
                try:
                    data = asyncio.run(getattr(inv, meth)())
                except Exception as ex:     # noqa
                    st.violation('bulk-read-raises', f'{fam}.{meth}() raised {type(ex).__name__}: {ex} on registers filled with {fill}', dict(config=cfg, call=meth))
                    continue
                want = {s.id_ for s in (inv.sensors() if meth == 'read_runtime_data' else inv.settings())}
                if set(data) != want:
                    st.violation('ids-missing', f'{fam}.{meth}() misses {sorted(want - set(data))[:5]}', dict(config=cfg, call=meth))
            for s in list(inv.settings())[:: (1 if ctx.deep else 3)]:
                try: asyncio.run(inv.read_setting(s.id_))
                except ValueError: pass
                except Exception as ex:     # noqa
                    st.violation('single-read-raises', f'{fam}.read_setting({s.id_!r}) raised {type(ex).__name__}: {ex}', dict(config=cfg, setting=s.id_))
    # every sensor in turn: its OWN registers set to the special bit patterns of its width (integer limits, IEEE-754 infinities / NaNs / denormals
    # for the float sensors), everything else as the simulator has it -- the bulk read still returns every listed id
    SPECIAL = {1: [0x0000, 0xFFFF, 0x7FFF, 0x8000, 0xFFFE, 0x00FF, 0xFF00],
               2: [0x00000000, 0xFFFFFFFF, 0x7FFFFFFF, 0x80000000, 0x7F800000, 0xFF800000, 0x7FC00000, 0xFFC00000, 0x7F7FFFFF, 0x00000001, 0x0000FFFF, 0xFFFF0000],
               4: [0, 2 ** 64 - 1, 2 ** 63 - 1, 2 ** 63, 0x7FF0000000000000, 0xFFF0000000000000, 0x7FF8000000000000]}
    objs = [('ET', ) + IM.make_et(goodwe, IM.ET_SERIALS['745 HV'], 15000, (), 2, seed=ctx.rng.randrange(1 << 30)),
            ('DT', ) + IM.make_dt(goodwe, IM.DT_SERIALS['three-phase'], False, seed=ctx.rng.randrange(1 << 30))]
    for fam, inv, sim in objs:
        asyncio.run(inv.read_device_info())
        try: asyncio.run(inv.read_runtime_data())
        except Exception: pass          # noqa
        sens = list({x.id_: x for x in inv.sensors()}.values())
        sens = [x for x in sens if type(x).__name__ not in ('Calculated', 'EnumCalculated') and x.size_ in (1, 2, 4, 8)]
        if not ctx.deep:
            floats = [x for x in sens if type(x).__name__ in ('Float', 'Energy8', 'Timestamp')]
            sens = floats + ctx.rng.sample([x for x in sens if x not in floats], 25)
        for x in sens:
            nreg = max(1, (x.size_ + 1) // 2)
            keep = {a: sim.word(a) for a in range(x.offset, x.offset + nreg)}
            for pat in SPECIAL.get(nreg, []):
                for i in range(nreg): sim.set(x.offset + i, (pat >> (16 * (nreg - 1 - i))) & 0xFFFF)
                cfg = dict(family=fam, sensor=x.id_, own_registers=f'{pat:#0{2 + 4 * nreg}x}')
                st.case((fam, x.id_, pat), sample=cfg if len(st.samples) < 6 else None)
                try:
                    data = asyncio.run(inv.read_runtime_data())
                except Exception as ex:     # noqa
                    st.violation('bulk-read-raises', f'{fam}.read_runtime_data() raised {type(ex).__name__}: {ex} when the registers of {x.id_} hold {cfg["own_registers"]}', dict(config=cfg)); continue
                want = {y.id_ for y in inv.sensors()}
                if set(data) != want:
                    st.violation('ids-missing', f'{fam}.read_runtime_data() misses {sorted(want - set(data))[:5]} when the registers of {x.id_} hold {cfg["own_registers"]}', dict(config=cfg))
            for a, w in keep.items(): sim.set(a, w)
    # ES answers of any announced length: the AA55 runtime / settings payload shorter (or longer) than the sensor table expects -- every id is
    # still reported, nothing but None / values comes out
    for ln in ([0, 1, 2, 3, 7, 30, 57, 58, 59, 60, 63, 64, 86, 88, 90, 92, 93, 94, 120, 149] if not ctx.deep else list(range(0, 160))):
        for which in ('runtime', 'settings'):
            inv, sim = IM.make_es(goodwe, IM.ES_SERIALS['ESU'], '2314E', seed=ctx.rng.randrange(1 << 30))
            asyncio.run(inv.read_device_info())
            body = bytes(ctx.rng.randrange(256) for _ in range(ln)) if ctx.rng.random() < 0.7 else bytes([ctx.rng.choice([0, 0xFF])]) * ln
            getattr(sim, which)[:] = body
            meth = 'read_runtime_data' if which == 'runtime' else 'read_settings_data'
            cfg = dict(family='ES', block=which, announced_length=ln, payload=body.hex())
            st.case(('ES-len', which, ln), sample=cfg if ln == 58 else None)
            try:
                data = asyncio.run(getattr(inv, meth)())
            except Exception as ex:     # noqa
                st.violation('bulk-read-raises', f'ES.{meth}() raised {type(ex).__name__}: {ex} on a {which} answer of {ln} bytes', dict(config=cfg, call=meth)); continue
            want = {x.id_ for x in (inv.sensors() if which == 'runtime' else inv.settings())}
            if set(data) != want:
                st.violation('ids-missing', f'ES.{meth}() misses {sorted(want - set(data))[:5]} on a {which} answer of {ln} bytes', dict(config=cfg, call=meth))
    # consecutive polls with an undecodable value (a cache of failing sensors must not drop the key)
    inv, sim = IM.make_dt(goodwe, IM.DT_SERIALS['three-phase'], False, seed=3); asyncio.run(inv.read_device_info())
    sim.set_bytes(30100, bytes([24, 13, 40, 25, 61, 61]))
    for poll in range(3):
        data = asyncio.run(inv.read_runtime_data())
        st.case(('poll', poll))
        if 'timestamp' not in data or data['timestamp'] is not None:
            st.violation('ids-missing', f'DT poll {poll + 1} with an impossible date: timestamp entry is {data.get("timestamp", "<missing>")!r}', dict(poll=poll + 1))
    return st


SPEC = dict(
    level='proof',
    manifest=dict(
        text='Coq theorems: for every sensor kind without a float round() and EVERY response content of ANY length, decoding yields a '
             'value or ValueError (-> None in the bulk reads) -- never IndexError/OverflowError/...; lifted over every row of every '
             'GENERATED table of ET/DT/ES (sensors and settings), with the exact list of the 12 rows not covered (Calculated sensors that '
             'round a voltage x current product); the schedule bit walks never run out of names; _map_response reports one entry per row. '
             'The model is compared with the real classes on every run (field sweeps over whole 16-bit ranges, table blocks incl. '
             'truncated ones) and a monitor drives read_runtime_data / read_settings_data / read_setting of the real classes over '
             'sentinel and random register files.',
        note='Partial for 12 Calculated rows (DT ppv*, pgrid*, ES ppv*, pbattery1, house_consumption): round() of a product of two bounded '
             'readings cannot overflow, which is validated by the correspondence on boundary values, not proved (no float axioms used).',
        technique='Coq proof on a hand model + generated tables (vm_compute lifted by forallb) + exhaustive field correspondence + monitor',
        design_ref='DESIGN.md section 5 (C11)'),
    stages=[SP.stage_tables, SP.stage_fields, stage_monitor],
    theorems=['C11_map_response_is_the_model', 'C11_decoding_total', 'C11_tables_total', 'C11_exceptions_are_exactly', 'C11_every_sensor_reported', 'C11_day_of_week_total', 'C11_months_total'],
    rule='field sweeps: (sensor class, field) x 256-value chunks of the 16-bit range (all chunks in thorough); table blocks: boundary, '
         'sentinel, random and truncated blocks per table; monitor: register files filled with sentinels / random words per family',
    trusted_base=SP.TB_SENS,
    assumptions=['response bytes are arbitrary; the table structure is the generated one'],
)

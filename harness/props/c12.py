"""C12 -- each sensor value is the documented reading of exactly its own registers."""
from __future__ import annotations
import asyncio
from ..runner import Stage
from .. import siminv as SI, invmon as IM
from . import sensorprop as SP


def stage_locality(ctx):
    """the real classes: changing any OTHER register of the block never changes a sensor's value; reading the same registers
    through blocks with different start addresses gives the same value"""
    st = Stage('locality-monitor')
    goodwe = SI.reload_goodwe()
    import goodwe.protocol as PR
    rng = ctx.rng
    tables = [(goodwe.ET, '_ET__all_sensors', 35100, 125), (goodwe.ET, '_ET__all_sensors_battery', 37000, 24), (goodwe.ET, '_ET__all_sensors_meter', 36000, 125),
              (goodwe.DT, '_DT__all_sensors', 30100, 73), (goodwe.DT, '_DT__all_sensors_meter', 30195, 15)]
    for cls, attr, first, count in tables:
        sensors = getattr(cls, attr)
        for trial in range(3 if not ctx.deep else 30):
            blk = bytearray(rng.randrange(256) for _ in range(2 * count))
            blk[0:6] = bytes([24, 2, 28, 12, 30, 15])

            def resp(b, fa=first, cnt=count, kind='rtu'):
                if kind == 'rtu':
                    cmd = PR.ModbusRtuReadCommand(0xf7, fa, cnt)
                    return PR.ProtocolResponse(b'\xaa\x55\xf7\x03' + bytes([len(b) & 255]) + bytes(b) + b'\x00\x00', cmd)
                cmd = PR.ModbusTcpReadCommand(0xf7, fa, cnt)
                return PR.ProtocolResponse(bytes([0, 1, 0, 0, 0, 3]) + b'\xf7\x03' + bytes([len(b) & 255]) + bytes(b), cmd)
            for s in sensors:
                c = type(s).__name__
                if c in ('Calculated', 'EnumCalculated'): continue
                own = set(range(2 * (s.offset - first), 2 * (s.offset - first) + max(2, s.size_)))
                if c == 'EnumBitmap22': own |= set(range(2 * (s._offsetL - first), 2 * (s._offsetL - first) + 2))
                try: v0 = repr(s.read(resp(blk)))
                except Exception as ex: v0 = type(ex).__name__     # noqa
                other = bytearray(blk)
                for i in range(len(other)):
                    if i not in own: other[i] = rng.randrange(256)
                try: v1 = repr(s.read(resp(other)))
                except Exception as ex: v1 = type(ex).__name__     # noqa
                st.case((attr, s.id_, trial), sample=dict(table=attr, sensor=s.id_, value=v0) if len(st.samples) < 3 else None)
                if v0 != v1:
                    st.violation('not-local', f'{attr}.{s.id_}: value {v0} becomes {v1} when only registers of OTHER sensors change', dict(table=attr, sensor=s.id_, block=bytes(blk).hex(), other=bytes(other).hex()))
                # the same block over Modbus/TCP framing (no checksum trailer): also the sensors in the LAST registers of the block
                try: vt = repr(s.read(resp(blk, kind='tcp')))
                except Exception as ex: vt = type(ex).__name__     # noqa
                if vt != v0:
                    st.violation('position-mapping', f'{attr}.{s.id_}: {v0} from the block in Modbus/RTU framing, {vt} from the same registers in Modbus/TCP framing',
                                 dict(table=attr, sensor=s.id_, block=bytes(blk).hex(), framing='tcp'))
                # exactly the registers read_sensor() requests for this sensor -- (size + size % 2) / 2 from its own offset -- in both framings
                if c not in ('EnumBitmap22', 'EnumBitmap4') and s.size_ > 0 and 2 * (s.offset - first) + s.size_ + s.size_ % 2 <= len(blk):
                    exact = blk[2 * (s.offset - first):][: s.size_ + s.size_ % 2]
                    for framing in ('tcp', 'rtu'):
                        try: ve = repr(s.read(resp(exact, fa=s.offset, cnt=len(exact) // 2, kind=framing)))
                        except Exception as ex: ve = type(ex).__name__     # noqa
                        if ve != v0:
                            st.violation('position-mapping', f'{attr}.{s.id_}: {v0} through the block at {first}, {ve} through the {len(exact) // 2} register(s) a single {framing} read of the sensor fetches',
                                         dict(table=attr, sensor=s.id_, block=bytes(blk).hex(), framing=framing, exact_window=True))
                # a window that starts at the sensor itself (as read_sensor does), over Modbus/TCP framing, after the bulk window
                if 2 * (s.offset - first) + 8 <= len(blk) and c != 'EnumBitmap22':
                    sub = blk[2 * (s.offset - first):][: 2 * ((s.size_ + 1) // 2 + 3)]
                    for framing in ('tcp', 'rtu'):
                        try: v2 = repr(s.read(resp(sub, fa=s.offset, cnt=len(sub) // 2, kind=framing)))
                        except Exception as ex: v2 = type(ex).__name__     # noqa
                        try: v3 = repr(s.read(resp(blk)))
                        except Exception as ex: v3 = type(ex).__name__     # noqa
                        if v2 != v0 or v3 != v0:
                            st.violation('position-mapping', f'{attr}.{s.id_}: {v0} through the block at {first}, {v2} through a {framing} block starting at {s.offset}, {v3} through the first block again',
                                         dict(table=attr, sensor=s.id_, block=bytes(blk).hex(), framing=framing))
    return st


def stage_locality_runtime(ctx):
    """the same through read_runtime_data() of real ET / DT / ES objects on the simulated inverter: with a sensor's own registers kept, every OTHER
    register of the inverter set to 0x0000, to 0xffff and to random words -- the value reported for that sensor must not move"""
    st = Stage('runtime-locality-monitor')
    import asyncio
    from .. import invmon as IM
    goodwe = SI.reload_goodwe()
    rng = ctx.rng
    SKIP = ('Calculated', 'EnumCalculated')
    objs = [('DT three-phase', lambda: IM.make_dt(goodwe, IM.DT_SERIALS['three-phase'], seed=rng.randrange(1 << 30)), [(30100, 73), (30195, 15)], {}),
            ('DT single-phase', lambda: IM.make_dt(goodwe, IM.DT_SERIALS['single-phase'], seed=rng.randrange(1 << 30)), [(30100, 73), (30195, 15)], {}),
            ('ET 10 kW', lambda: IM.make_et(goodwe, IM.ET_SERIALS['205 three-phase'], 10000, (), 2, seed=rng.randrange(1 << 30)), [(35100, 125), (37000, 24), (36000, 125), (35301, 61)], {35184: 2}),
            ('ET 25 kW', lambda: IM.make_et(goodwe, IM.ET_SERIALS['2-battery 3-MPPT'], 25000, (), 2, seed=rng.randrange(1 << 30)), [(35100, 125), (37000, 24), (39000, 24), (36000, 125), (35301, 61)], {35184: 2})]
    for name, mk, blocks, fixed in objs:
        inv, sim = mk()
        asyncio.run(inv.read_device_info())
        for a, w in fixed.items(): sim.set(a, w)
        allregs = [r for first, cnt in blocks for r in range(first, first + cnt)]
        base = {r: sim.word(r) for r in allregs}
        base[allregs[0]] = 0x1802; base[allregs[0] + 1] = 0x1c0c; base[allregs[0] + 2] = 0x1e0f      # a valid timestamp
        for r, w in base.items(): sim.set(r, w)
        try: data0 = asyncio.run(inv.read_runtime_data())
        except Exception as ex:      # noqa
            st.violation('runtime-read-fails', f'{name}: read_runtime_data() raises {type(ex).__name__}: {ex}', dict(object=name)); continue
        # an id listed twice (ET meter energies) is reported from its LAST definition, as dict.update / _map_response do
        sensors = [x for x in {y.id_: y for y in inv.sensors()}.values() if type(x).__name__ not in SKIP and x.id_ in data0]
        if not ctx.deep: sensors = rng.sample(sensors, min(len(sensors), 40))
        for x in sensors:
            own = set(range(x.offset, x.offset + max(1, (x.size_ + 1) // 2)))
            if type(x).__name__ == 'EnumBitmap22': own |= {x._offsetL}
            for label, fill in (('0x0000', lambda r: 0), ('0xffff', lambda r: 0xffff), ('random words', lambda r: rng.randrange(65536))):
                for r in allregs:
                    sim.set(r, base[r] if (r in own or r in fixed or r < allregs[0] + 3) else fill(r))
                st.case((name, x.id_, label), sample=dict(object=name, sensor=x.id_, others=label) if len(st.samples) < 3 else None)
                try: data1 = asyncio.run(inv.read_runtime_data())
                except Exception as ex:      # noqa
                    st.violation('runtime-read-fails', f'{name}: read_runtime_data() raises {type(ex).__name__} when the registers other than those of {x.id_} hold {label}', dict(object=name, sensor=x.id_, others=label)); continue
                if x.id_ in data1 and not IM.same(data0[x.id_], data1[x.id_]) and repr(data0[x.id_]) != repr(data1[x.id_]):
                    st.violation('not-local-runtime', f'{name}: read_runtime_data()[{x.id_!r}] is {data0[x.id_]!r}, but {data1[x.id_]!r} when only the registers of OTHER sensors change (to {label}); '
                                                      f'own registers {sorted(own)} unchanged', dict(object=name, sensor=x.id_, others=label, own_registers=sorted(own)))
            for r in allregs: sim.set(r, base[r])
        # no memory of earlier polls: after polls over other register contents, the same object reports for the current registers exactly what a FRESH
        # object of the same model reports for them (zeros, all-ones "no value" words, random words; the timestamp and the fixed registers kept)
        for label, fill in (('0x0000', lambda r: 0), ('0xffff', lambda r: 0xffff), ('random words', lambda r: rng.randrange(65536)), ('0x0000 again', lambda r: 0)):
            for r in allregs:
                sim.set(r, base[r] if (r in fixed or r < allregs[0] + 3) else fill(r))
            try: old_obj = asyncio.run(inv.read_runtime_data())
            except Exception as ex:      # noqa
                st.violation('runtime-read-fails', f'{name}: read_runtime_data() raises {type(ex).__name__} on registers filled with {label}', dict(object=name, others=label)); continue
            inv2, _ = mk()
            inv2._sim = sim
            SI.attach(inv2, sim)
            asyncio.run(inv2.read_device_info())
            try: new_obj = asyncio.run(inv2.read_runtime_data())
            except Exception: continue      # noqa
            st.case((name, 'history', label))
            for k in sorted(set(old_obj) & set(new_obj)):
                if not IM.same(old_obj[k], new_obj[k]) and repr(old_obj[k]) != repr(new_obj[k]) and not hasattr(old_obj[k], 'start_h'):
                    st.violation('depends-on-earlier-polls', f'{name}: with all runtime registers at {label}, read_runtime_data()[{k!r}] is {old_obj[k]!r} on an object that polled other '
                                                             f'contents before, but {new_obj[k]!r} on a fresh object reading the same registers', dict(object=name, sensor=k, registers=label))
                    break
        for r in allregs: sim.set(r, base[r])
    return st


SPEC = dict(
    level='proof',
    manifest=dict(
        text='Coq theorems on the sensor model: the value of a raw sensor is the decoding of exactly the `width` bytes at its own position '
             '(hence no other register can influence it and it changes with its own bytes as its class decodes them), for every class; '
             'every row of the GENERATED tables is such a sensor (or a declared derived / two-word one) with a declared size equal to what it '
             'reads; address -> position is (address - first) x 2 for Modbus and the identity for AA55 (functions translated from protocol.py); '
             'documented interpretation lemmas for the 2-byte classes (big endian, signedness, scale, sentinels). Model = code is checked by '
             'the field sweeps (all 65536 contents per class in thorough) and table blocks; a monitor perturbs all other registers and '
             're-reads sensors through windows with other start addresses and framings on the real classes.',
        note='Scaled values are binary64 quotients exactly as CPython computes them (Coq primitive floats, bit-exact). The "documented '
             'interpretation" of the 4/6/8-byte classes is the model itself, compared with the code.',
        technique='Coq proof on a hand model + generated tables + exhaustive field correspondence + locality monitor',
        design_ref='DESIGN.md section 5 (C12)'),
    stages=[SP.stage_tables, SP.stage_fields, stage_locality, stage_locality_runtime],
    theorems=['C12_value_from_own_bytes', 'C12_other_registers_do_not_matter', 'C12_two_word_bitmaps_read_their_two_words', 'C12_all_table_entries_classified',
              'C12_declared_sizes', 'C12_modbus_position', 'C12_voltage_current', 'C12_frequency', 'C12_temperature', 'C12_energy', 'C12_power_integer'],
    rule='as C11 for the correspondence; locality monitor: every sensor of the Modbus tables x random blocks x randomised complement x shifted windows',
    trusted_base=SP.TB_SENS,
    assumptions=[],
)

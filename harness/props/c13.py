"""C13 -- derived and label sensors always agree with the raw sensors of the same read."""
from __future__ import annotations
import asyncio
from ..runner import Stage
from .. import siminv as SI, invmon as IM
from . import sensorprop as SP


def _labels_of(code, labels):
    out = []
    for i in range(32):
        if code >> i & 1:
            l = labels.get(i, f'err{i}')
            if l: out.append(l)
    return ', '.join(out)


def stage_monitor(ctx):
    """on results of the real classes: every derived / label value equals its definition over the raw values of the SAME result"""
    st = Stage('derived-agree-monitor')
    goodwe = SI.reload_goodwe()
    import goodwe.const as K
    rng = ctx.rng
    n = 40 if not ctx.deep else 600
    for trial in range(n):
        # every model family and rated power in turn (the sensor table is adapted to both in read_device_info)
        et_serial = list(IM.ET_SERIALS.values())[trial % len(IM.ET_SERIALS)] if trial % 3 else IM.ET_SERIALS['745 HV']
        et_rated = [15000, 5000, 10000, 25000, 29900, 50000][(trial // 2) % 6]
        objs = [('ET', ) + IM.make_et(goodwe, et_serial, et_rated, (), 2, seed=rng.randrange(1 << 30)),
                ('DT', ) + IM.make_dt(goodwe, IM.DT_SERIALS['three-phase' if trial % 2 else 'single-phase 3-MPPT'], False, seed=rng.randrange(1 << 30)),
                ('ES', ) + IM.make_es(goodwe, IM.ES_SERIALS['ESU'], '2314E', seed=rng.randrange(1 << 30))]
        for fam, inv, sim in objs:
            asyncio.run(inv.read_device_info())
            # interesting contents for the code words
            if fam == 'ET':
                for a in (35189, 35190, 35220, 35221, 37006, 37012, 37010, 37013): sim.set(a, rng.choice([0, 1, 0x8000, 0xFFFF, rng.randrange(65536)]))
                sim.set(35139, rng.choice([0, 0xFFFF, 1, 0x8000, rng.randrange(65536)]))      # the (reserved) word before active_power
                for a in (35140, 35182, 35183, 35105, 35106): sim.set(a, rng.choice([0, 1, 0x8000, 0xFFFF, 0xFA24, rng.randrange(65536)]))
            if fam == 'DT':
                for a in (30165, 30166): sim.set(a, rng.choice([0, 1, 0x8000, 0xFFFF, rng.randrange(65536)]))
            if fam == 'ES':
                sim.runtime[38:40] = bytes([rng.choice([0, 0xFA, 0x80, 0xFF, rng.randrange(256)]), rng.randrange(256)])
                sim.runtime[80] = rng.choice([0, 1, 2, 3]); sim.runtime[30] = rng.choice([0, 1, 2, 3, 4])
                sim.runtime[89:93] = bytes(rng.choice([0, 0x80, 0xFF, rng.randrange(256)]) for _ in range(4))
            data = asyncio.run(inv.read_runtime_data())
            cfg = dict(family=fam, seed=sim.salt, trial=trial)
            if fam == 'ET': cfg.update(serial=et_serial, rated_power=et_rated)
            st.case((fam, trial), sample=dict(config=cfg) if len(st.samples) < 2 else None)

            def bad(key, msg): st.violation(key, f'{fam}: {msg}', dict(config=cfg, registers={str(a): w for a, w in sim.regs.items() if a > 35099}, runtime=bytes(sim.runtime).hex() if fam == 'ES' else None))
            by_id = {s.id_: s for s in inv.sensors()}
            for sid, s in by_id.items():
                c = type(s).__name__
                if sid.endswith('_label') and c in ('Enum', 'EnumH', 'EnumL', 'Enum2', 'EnumCalculated'):
                    code = data.get(sid[:-6])
                    want = s._labels.get(code)
                    if data.get(sid) != want: bad('label', f'{sid} = {data.get(sid)!r} but {sid[:-6]} = {code!r} looks up to {want!r}')
                if c == 'EnumBitmap4':
                    code_id = {'errors': 'error_codes', 'diagnose_result_label': 'diagnose_result', 'derating_mode_label': 'derating_mode'}.get(sid)
                    if code_id and code_id in data:
                        want = _labels_of(data[code_id], s._labels)
                        if data.get(sid) != want: bad('bitmap4', f'{sid} = {data.get(sid)!r} but {code_id} = {data[code_id]:#x} has the set bits {want!r}')
                if c == 'EnumBitmap22':
                    hi, lo = data.get(sid + '_h'), data.get(sid + '_l')
                    if hi is not None and lo is not None:
                        want = _labels_of(hi * 65536 + lo, s._labels)
                        if data.get(sid) != want: bad('bitmap22-precedence', f'{sid} = {data.get(sid)!r} but high word {hi:#x} / low word {lo:#x} have the set bits {want!r}')
            if fam == 'ET':
                z = lambda v: v if v is not None else 0      # noqa
                def part(i):
                    # ppvN of this result; a model that does not list ppv3 / ppv4 still sums their registers (the definition is over the raw values of
                    # the same response): then the raw 32-bit word, undefined (0xFFFFFFFF) counting as 0
                    if f'ppv{i}' in data: return z(data[f'ppv{i}'])
                    a = 35105 + 4 * (i - 1)
                    w = (sim.word(a) << 16) | sim.word(a + 1)
                    return 0 if w == 0xFFFFFFFF else w
                parts = [part(i) for i in (1, 2, 3, 4)]
                if data['ppv'] != sum(max(0, x) for x in parts): bad('derived', f"ppv = {data['ppv']} but ppv1..4 = {[data.get(f'ppv{i}') for i in (1, 2, 3, 4)]} (registers: {parts})")
                hc = sum(parts) + data['pbattery1'] - data['active_power']
                if data['house_consumption'] != hc: bad('derived', f"house_consumption = {data['house_consumption']}, definition gives {hc}")
                g = 2 if data['active_power'] < -90 else 1 if data['active_power'] >= 90 else 0
                if data['grid_in_out'] != g: bad('derived', f"grid_in_out = {data['grid_in_out']} for active_power {data['active_power']}")
            if fam == 'DT':
                raw = {s.id_: s.read(resp) for s in goodwe.DT._DT__all_sensors if type(s).__name__ in ('Voltage', 'Current')} if False else None
                for i in (1, 2, 3):
                    if f'ppv{i}' in data and f'vpv{i}' in data:
                        w = round(data[f'vpv{i}'] * data[f'ipv{i}'])
                        if data[f'ppv{i}'] != w: bad('derived', f"ppv{i} = {data[f'ppv{i}']} but vpv{i} x ipv{i} rounds to {w}")
                    if f'pgrid{i}' in data and f'vgrid{i}' in data:
                        w = round(data[f'vgrid{i}'] * data[f'igrid{i}'])
                        if data[f'pgrid{i}'] != w: bad('derived', f"pgrid{i} = {data[f'pgrid{i}']} but vgrid{i} x igrid{i} rounds to {w}")
                if all(f'ppv{i}' in data for i in (1, 2, 3)) and data['ppv'] != data['ppv1'] + data['ppv2'] + data['ppv3']: bad('derived', f"ppv = {data['ppv']} is not ppv1 + ppv2 + ppv3")
            if fam == 'ES':
                for i in (1, 2):
                    w = round(data[f'vpv{i}'] * data[f'ipv{i}'])
                    if data[f'ppv{i}'] != w: bad('derived', f"ppv{i} = {data[f'ppv{i}']} but vpv{i} x ipv{i} rounds to {w}")
                if data['ppv'] != data['ppv1'] + data['ppv2']: bad('derived', 'ppv is not ppv1 + ppv2')
                hc = data['ppv1'] + data['ppv2'] + data['pbattery1'] - data['pgrid']
                if data['house_consumption'] != hc: bad('derived', f"house_consumption = {data['house_consumption']} but ppv1 + ppv2 + pbattery1 - pgrid = {hc}")
                pl = (data['pload'] or 0) + (data['pback_up'] or 0)
                if data['plant_power'] != pl: bad('derived', f"plant_power = {data['plant_power']} but pload + pback_up = {pl}")
    return st


SPEC = dict(
    level='proof',
    manifest=dict(
        text='Coq theorems: (kind level, all response contents) a label sensor is the table lookup of the code decoded from the same '
             'registers; 4-byte bitmaps list exactly the set bits 0..31 with a non-empty label; (generated tables, vm_compute) every '
             'label / bitmap row has its code row(s) at the same registers, and every Calculated getter (translated from the lambdas of '
             'et.py / dt.py / es.py on this run) equals its definition over the registers of the raw sensors it is defined from (ppv, '
             'house_consumption, grid_in_out, DT/ES voltage x current powers, pbattery1, pgrid, plant_power).  KNOWN FINDING: the 2+2-byte '
             'bitmaps compute high << (16 + low) -- C13_bitmap22_partial states what they provably compute, C13_bitmap22_refuted gives the '
             'witness.  A monitor re-derives every label / bitmap / total / product from the raw values of results of the real classes.',
        note='Products voltage x current are binary64 products rounded half-even by round(), as in CPython (primitive floats).',
        technique='Coq proof on a hand model + generated tables/getters + correspondence + derived-value monitor',
        design_ref='DESIGN.md section 5 (C13)'),
    stages=[SP.stage_tables, SP.stage_fields, stage_monitor],
    theorems=['C13_label_is_lookup_of_code', 'C13_calculated_label_is_lookup', 'C13_label_sensors_have_their_codes', 'C13_bitmap4_lists_set_bits',
              'C13_bitmap22_partial', 'C13_bitmap22_refuted', 'C13_ET_derived', 'C13_DT_derived', 'C13_ES_derived'],
    rule='monitor: ET / DT / ES results on register files with boundary code words (0, 1, 0x8000, 0xFFFF, random) and signed power registers',
    trusted_base=SP.TB_SENS,
    assumptions=[],
)

"""C14 -- sensors are decoded only from registers that were actually fetched."""
from __future__ import annotations
from ..runner import Stage
from .. import siminv as SI, invmon as IM
from . import sensorprop as SP
from .c15 import stage_caps_correspondence, stage_dt_caps_correspondence

SPEC = dict(
    level='proof',
    manifest=dict(
        text='Coq theorem C14_windows_partial (vm_compute over the tables, read commands and meter-filter limits GENERATED from /repo on '
             'this run): every register read by every sensor -- Calculated getters and both words of the two-word bitmaps included -- lies '
             'inside the window of the command that fetches its table, for ET running / battery / battery 2 / meter extended-2 / extended / '
             'basic (with the corresponding filter) / MPPT and DT running / meter; model variants only filter these lists; a sensor inside '
             'the window gets all its bytes from a full-length answer; C14_meter_window_always_covers: in EVERY capability state reachable through any history of '
             'read_runtime_data calls (any refusals, any request lost at any point, exception paths included; capability model Model/ETCaps.v, compared '
             'with the real class on every run incl. lost requests) the meter window requested next covers the meter sensors decoded from it; '
             'the window gets all its bytes from a full-length answer.  KNOWN FINDING excluded by name and shown by C14_mppt_refuted: ET '
             'apparent_power2 / apparent_power3.  The pairing of command and list in every reachable capability state is checked at run time: '
             'the real ET / DT classes decode answers of the simulated inverter for all refusal subsets (quick: each subset once + every '
             'model x power class) with a hook that records every read past the end of an answer.',
        note='The complete enumeration (7 serial classes x 5 power classes x 128 refusal subsets x battery present/absent) runs in the thorough tier.',
        technique='Coq proof over generated tables (vm_compute, forallb) + run-time short-read monitor over the configuration space',
        design_ref='DESIGN.md section 5 (C14)'),
    stages=[stage_caps_correspondence, stage_dt_caps_correspondence, SP.inv_stage('window-monitor', lambda st, ctx, g: IM.mon_runtime(st, ctx, g, want=('C14',)))],
    theorems=['C14_dt_decodes_fetched_blocks', 'C14_read_runtime_data_is_the_model', 'C14_windows_partial', 'C14_mppt_refuted', 'C14_variants_are_sublists', 'C14_no_short_read', 'C14_meter_window_always_covers'],
    rule='configurations: ET serial class x rated power x refused optional blocks x battery_mode (thorough: complete product), DT models x meter refused',
    trusted_base=SP.TB_SENS,
    exhaustive=True,
    assumptions=['a full-length answer has 2 x count payload bytes (C01)'],
)

"""C15 -- read_runtime_data() keys equal sensors() for every model and capability set."""
from __future__ import annotations
import asyncio
from ..runner import Stage
from .. import siminv as SI, invmon as IM, coqrun as C
from . import sensorprop as SP

BLK = {35100: 0, 37000: 1, 39000: 2, 35301: 6}


def stage_caps_correspondence(ctx):
    """Model/ETCaps.v against the real ET class: requests, outcome and capability flags of three consecutive calls"""
    st = Stage('capability-model-correspondence')
    goodwe = SI.reload_goodwe()
    import goodwe.model as MD
    cases, descr = [], []
    configs = [(cfg, None) for cfg in IM.et_configs(ctx.rng, ctx.deep)]
    # the same with one request lost at every position of the first or the second call (exception paths of the bookkeeping)
    lossy = [cfg for cfg in IM.et_configs(ctx.rng, False)]
    for cfg in lossy[:: (3 if not ctx.deep else 1)]:
        for call in (0, 1):
            for k in range(7): configs.append((cfg, (call, k)))
    for (tag, serial, rated, sub, bm), loss in configs:
        inv, sim = IM.make_et(goodwe, serial, rated, sub, bm, seed=ctx.rng.randrange(1 << 30))
        asyncio.run(inv.read_device_info())
        two = MD.is_2_battery(inv) or rated >= 25000
        big = MD.is_745_platform(inv) or rated >= 15000
        got, envs, losses = [], [], []
        for call in range(3):
            bmz = (bm == 0) if call < 2 else False
            sim.set(35184, 0 if bmz else 2)
            n0 = len(sim.log)
            sim.lose = {n0 + loss[1]} if loss and loss[0] == call else set()
            try:
                asyncio.run(inv.read_runtime_data()); ok = 1
            except Exception:     # noqa
                ok = 0
            sim.lose = set()
            reqs = []
            for e in sim.log[n0:]:
                if e['reg'] == 36000: reqs.append({125: 3, 58: 4, 45: 5}.get(e['count'], 9))
                else: reqs.append(BLK.get(e['reg'], 9))
            offs = [s.offset for s in inv._sensors_meter]
            lvl = 0 if any(o >= 36058 for o in offs) else 1 if any(o >= 36045 for o in offs) else 2
            got += [len(reqs)] + reqs + [ok] + [int(inv._has_battery), int(inv._has_battery2), int(inv._has_meter_extended), int(inv._has_meter_extended2), int(inv._has_mppt), lvl]
            envs.append(f'(mkEnv {b("battery" in sub)} {b("battery2" in sub)} {b("meter_ext2" in sub or "meter_ext" in sub)} {b("meter_ext" in sub)} {b("mppt" in sub)} {b(bmz)})')
            losses.append(f'(Some {loss[1]}%nat)' if loss and loss[0] == call else 'None')
        term = (f'map Z.of_nat (let c0 := after_device_info {b(two)} {b(big)} in '
                f'let r1 := read_runtime_data c0 {envs[0]} {losses[0]} in let r2 := read_runtime_data (snd r1) {envs[1]} {losses[1]} in '
                f'let r3 := read_runtime_data (snd r2) {envs[2]} {losses[2]} in enc_call r1 ++ enc_call r2 ++ enc_call r3)')
        cases.append((term, got)); descr.append(dict(model=tag, serial=serial, rated_power=rated, refused=list(sub), battery_mode=bm, lost_request=loss))
        st.case((serial, rated, sub, bm, loss), sample=dict(config=descr[-1], observed=got) if len(st.samples) < 3 else None)
    bad, err = C.eval_cases('c15caps', 'ETCaps', cases, shard=300)
    if err: st.violation('caps-eval', f'model evaluation failed: {err[:300]}', dict(error=err), no_input=True)
    for i in bad[:6]:
        st.violation('caps-mismatch', f'Model/ETCaps.v and ET.read_runtime_data disagree (requests / outcome / flags of three calls) for {descr[i]}: implementation {cases[i][1]}',
                     dict(config=descr[i], implementation=cases[i][1], correspondence='ETCaps.read_runtime_data vs goodwe.et.ET'), no_input=True)
    return st


def b(x): return 'true' if x else 'false'


SPEC = dict(
    level='proof',
    manifest=dict(
        text='Coq theorems on the capability model of ET.read_runtime_data / sensors() (Model/ETCaps.v): from EVERY capability set and for '
             'EVERY combination of refused optional blocks and battery presence, a call that returns yields exactly the sensor groups that '
             'sensors() lists afterwards, and with a fixed refusal set the first or the second call succeeds (complete enumeration of the '
             'finite space inside Coq, lifted to universally quantified statements).  The model is compared with the real class for all '
             'refusal subsets (quick: each once + every model x power class; thorough: the complete product) on requests, outcomes and flags of '
             'three consecutive calls; a monitor checks keys == ids of sensors() and success by the second call on the real ET / DT / ES classes.',
        note='The model abstracts sensor lists to groups (running, meter at a filter level, battery, battery 2, MPPT); that each group is '
             'decoded completely is C11. DT and ES have one optional block / none and are covered by the monitor only.',
        technique='Coq proof by exhaustive evaluation of a hand model + correspondence with the real class + keys monitor',
        design_ref='DESIGN.md section 5 (C15)'),
    stages=[stage_caps_correspondence, SP.inv_stage('keys-monitor', lambda st, ctx, g: IM.mon_runtime(st, ctx, g, want=('C15',)))],
    theorems=['C15_read_runtime_data_is_the_model', 'C15_sensors_is_the_model', 'C15_keys_equal_sensors', 'C15_succeeds_by_second_call', 'C15_filter_level_invariant'],
    rule='ET: serial class x rated power x refused optional blocks x battery_mode x three calls (battery appearing before the third); DT models x meter; ES models',
    trusted_base=['Model/ETCaps.v (hand model of the capability bookkeeping), compared with goodwe.et.ET on every run'] + SP.TB_SENS[2:],
    exhaustive=True,
    assumptions=['the inverter refuses a fixed set of optional blocks with ILLEGAL DATA ADDRESS; mandatory blocks (running data, basic meter window) are answered'],
)

"""C16 -- reading a single sensor gives the same value as the bulk read."""
from . import sensorprop as SP
from .. import invmon as IM

SPEC = dict(
    level='proof',
    manifest=dict(
        text='Coq theorems: (generated ET / DT tables, vm_compute) the register count of the single read, (size_ + size_ % 2) / 2, covers what the '
             "decoder of the sensor's class reads, for every sensor and setting; and a raw sensor decoded from two responses that agree on its "
             'own bytes -- the bulk block and the single-sensor answer, whatever their start addresses -- has the same value (corollary of C12).  '
             'A monitor compares read_sensor(id) with read_runtime_data()[id] for every listed id of ET and DT on the real classes over model '
             'configurations, sentinel/random register files and histories in which the battery disappears and comes back.  KNOWN FINDING: the '
             'computed classes (Calculated, EnumCalculated, EnumBitmap4, EnumBitmap22) are listed but read_sensor raises NotImplementedError.',
        note='The equality of the two decodings is a theorem of the sensor model; that read_sensor really requests (offset, count) and decodes with '
             'read_value is established by the monitor on the real classes.',
        technique='Coq proof over generated tables + corollary of the own-bytes theorem + single-vs-bulk monitor',
        design_ref='DESIGN.md section 5 (C16)'),
    stages=[SP.stage_tables, SP.inv_stage('single-vs-bulk-monitor', IM.mon_single, e2e=True)],
    theorems=['C16_single_read_fetches_enough', 'C16_single_equals_bulk', 'C16_generated_single_equals_bulk', 'C16_coverage'],
    rule='every id of sensors() x ET/DT configurations (sampled in quick) x register fills {random, 0xFFFF, 0x7FFF, 0}; capability-change histories',
    trusted_base=SP.TB_SENS,
    assumptions=['the registers do not change between the two reads'],
)

"""C17 -- a written setting reads back as written and touches only its own registers."""
import asyncio
from ..runner import Stage
from . import sensorprop as SP
from .. import invmon as IM, siminv as SI, sensorcorr as SC, coqrun as C


def stage_settings_model(ctx):
    """Model/Settings.v against the real ET / DT classes on the simulated inverter: the write request (first register, count) and the
    word stored in the setting's register after write_setting, for every setting of the covered kinds x values x prior register contents"""
    st = Stage('settings-model-correspondence')
    goodwe = SI.reload_goodwe()
    objs = [('et_ws', ) + IM.make_et(goodwe, IM.ET_SERIALS['205 three-phase'], 10000, (), 2, seed=ctx.rng.randrange(1 << 30)),
            ('dt_ws', ) + IM.make_dt(goodwe, IM.DT_SERIALS['three-phase'], seed=ctx.rng.randrange(1 << 30))]
    cases, descr = [], []
    for shape, inv, sim in objs:
        asyncio.run(inv.read_device_info())
        for s in inv.settings():
            c = type(s).__name__
            if c not in ('Integer', 'IntegerS', 'ByteH', 'ByteL', 'Decimal'): continue
            vals = IM.setting_values(s, ctx.rng, False)[:: (1 if ctx.deep else 3)]
            # prior content of the setting's register: random, and for the one-byte settings (merged into a shared register) the boundary words
            pv = [(v, ctx.rng.randrange(65536)) for v in vals]
            if c in ('ByteH', 'ByteL'): pv += [(v, w) for w in IM.BOUNDARY_WORDS for v in vals[:2]]
            for v, prior in pv:
                sim.set(s.offset, prior)
                n0 = len(sim.log)
                try:
                    asyncio.run(inv.write_setting(s.id_, v)); ok = True
                except Exception:      # noqa
                    ok = False
                wr = [e for e in sim.log[n0:] if e in sim.writes()]
                if ok and len(wr) == 1:
                    got = [1, wr[0]['reg'], 1 if wr[0]['fn'] == 6 else wr[0]['count'], sim.word(s.offset)]
                elif not ok and not wr: got = [0]
                else: got = [9, len(wr)]
                vt = f'(IInt ({int(v)}))' if c != 'Decimal' else f'(IFloat {SC.C.fl(float(v)) if hasattr(SC.C, "fl") else ""})'
                if c == 'Decimal':
                    k = round(float(v) * s.scale)
                    vt = f'(IFloat (PrimFloat.div (float_of_Z ({k})) (float_of_Z {s.scale})))'
                    if k / s.scale != float(v): continue
                term = (f'match write_setting {shape} (fun a => if a =? {s.offset} then {prior} else 0) (mkS ""%string {s.offset} {s.size_} {SC.coq_kind(goodwe, s)}) {vt} with '
                        f'| Ok (r, (o, n)) => [1; o; n; r {s.offset}] | Exc _ => [0] end')
                cases.append((term, got)); descr.append(dict(family=shape[:2].upper(), setting=s.id_, value=repr(v), prior=prior))
                st.case((shape, s.id_, repr(v)), sample=descr[-1] if len(st.samples) < 3 else None)
    bad, err = C.eval_cases('c17set', 'PyFloat Sensors Settings SettingsGen', cases, shard=300)
    if err: st.violation('settings-eval', f'model evaluation failed: {err[:300]}', dict(error=err), no_input=True)
    for i in bad[:6]:
        st.violation('settings-mismatch', f'Model/Settings.v and the real write_setting disagree (request / stored word) for {descr[i]}: implementation {cases[i][1]}',
                     dict(config=descr[i], implementation=cases[i][1], correspondence='Settings.write_setting vs ET/DT.write_setting'), no_input=True)
    return st

SPEC = dict(
    level='proof',
    manifest=dict(
        text='Coq theorems on the encoders/decoders of the sensor model: Integer (0..65534), IntegerS (all 16-bit values, two\'s complement), '
             'ByteH / ByteL (-128..127, the other half of the register preserved) symbolically; Decimal with scale 10, 100, 1000 for EVERY '
             'multiple k/scale, k in -32768..32767, by exhaustive evaluation with CPython\'s binary64 arithmetic (the register receives exactly k '
             'and k/scale is read back).  The encoders of the model are compared with the real classes (also on out-of-range values).  A monitor '
             'performs write_setting / read_setting for every setting of ET, DT (sensors and firmware variants, Modbus RTU and TCP) and the '
             'register-addressed eco-mode settings of ES (AA55 and Modbus) against the simulated inverter: exactly one write, addressed to the '
             "setting's registers, every other register unchanged (incl. the other half for one-byte settings), value read back.",
        note='End-to-end theorems (C17_write_read_*) hold on the register-file model Model/Settings.v for the 75 of 105 Modbus settings of kinds Integer, '
             'IntegerS, ByteH, ByteL, Decimal (sizes / scales checked against the generated tables, shape of _write_setting / _read_sensor emitted from '
             'the source by tools/ws2v.py, model compared with the real classes); multi-register groups, timestamps and values scaled by 10, and the ES '
             'paths, are covered by the monitor only.',
        technique='Coq proofs on codecs and on a register-file model of write_setting / read_setting + correspondences + write/read-back monitor',
        design_ref='DESIGN.md section 5 (C17)'),
    stages=[SP.stage_encoders, stage_settings_model, SP.inv_stage('write-readback-monitor', IM.mon_write, e2e=True)],
    theorems=['C17_write_read_long', 'C17_generated_shapes_ok2', 'C17_write_read_integer', 'C17_write_read_integer_signed', 'C17_write_read_byte_high', 'C17_write_read_byte_low', 'C17_write_read_decimal', 'C17_generated_shapes_ok', 'C17_generated_settings_fit', 'C17_integer', 'C17_integer_signed', 'C17_byte_high', 'C17_byte_low', 'C17_decimal'],
    rule='every setting with an encoder x boundary + seeded values (all 256 values of one-byte settings and all multiples of the resolution in thorough) '
         'x prior register contents x {ET RTU, ET TCP, DT, ES AA55, ES Modbus}',
    trusted_base=SP.TB_SENS,
    assumptions=['the simulated inverter stores what a write request carries'],
)

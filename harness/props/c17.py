"""C17 -- a written setting reads back as written and touches only its own registers."""
from . import sensorprop as SP
from .. import invmon as IM

SPEC = dict(
    level='proof',
    manifest=dict(
        text='Coq theorems on the encoders/decoders of the sensor model: Integer (0..65534), IntegerS (all 16-bit values, two\'s complement), '
             'ByteH / ByteL (-128..127, the other half of the register preserved) symbolically; Decimal with scale 10, 100, 1000 for EVERY '
             'multiple k/scale, k in -32768..32767, by exhaustive evaluation with CPython\'s binary64 arithmetic (the register receives exactly k '
             'and k/scale is read back).  The encoders of the model are compared with the real classes (also on out-of-range values).  A monitor '
             'performs write_setting / read_setting for every setting of ET, DT (sensors and firmware variants, Modbus RTU and TCP) and the '
             'register-addressed eco-mode settings of ES (AA55 and Modbus) against the simulated inverter: exactly one write, addressed to the '
             "setting's registers, every other register unchanged (incl. the other half for one-byte settings), value read back.",
        note='The write path (one write request with the right address) is established by the monitor against the simulated inverter, not by a theorem.',
        technique='Coq codec proofs (symbolic + exhaustive binary64 evaluation) + encoder correspondence + write/read-back monitor',
        design_ref='DESIGN.md section 5 (C17)'),
    stages=[SP.stage_encoders, SP.inv_stage('write-readback-monitor', IM.mon_write)],
    theorems=['C17_integer', 'C17_integer_signed', 'C17_byte_high', 'C17_byte_low', 'C17_decimal'],
    rule='every setting with an encoder x boundary + seeded values (all 256 values of one-byte settings and all multiples of the resolution in thorough) '
         'x prior register contents x {ET RTU, ET TCP, DT, ES AA55, ES Modbus}',
    trusted_base=SP.TB_SENS,
    assumptions=['the simulated inverter stores what a write request carries'],
)

"""C18 -- reading never writes, and invalid setter arguments never reach the inverter."""
from . import sensorprop as SP
from .. import invmon as IM

def _mon_readonly_all(st, ctx, goodwe):
    from .. import siminv as SI
    IM.mon_readonly(st, ctx, goodwe)
    if SI.E2E['on']: IM._readonly_connect_failures(st, ctx, goodwe)


SPEC = dict(
    level='proof',
    manifest=dict(
        text='Coq theorem over the call graph GENERATED from inverter.py / et.py / dt.py / es.py on this run (tools/callgraph.py): from every '
             'method of the monitoring API (read_device_info, read_runtime_data, read_sensor, read_setting, read_settings_data, get_*) of ET, DT '
             'and ES the transitive closure of self-calls constructs or references read commands only; connect/discover only call '
             'read_device_info / read_runtime_data / execute on read commands; (non-vacuity) the setters do reach write commands.  On the register-file models of C17 / C19 / C20 (guards and step lists GENERATED from '
             'set_grid_export_limit, set_ongrid_battery_dod, set_operation_mode of ET / DT): a negative export limit, a depth of discharge outside 0..100 '
             'and an eco-mode power or SoC outside 0..100 transmit nothing and change no register (C18_*_rejects, C18_eco_mode_arguments_rejected); '
             'read_setting and get_operation_mode of the two-object model transmit reads only.  A monitor '
             'drives the API of the real classes against the simulated inverter over model configurations and capability fallbacks (also after '
             'legitimate writes of the same registers) and calls every setter with out-of-range arguments: no write is transmitted, ValueError '
             'where documented.',
        note='Static part: syntactic call graph (self-calls, command constructors classified by name and literal AA55 payload prefix; dynamic '
             'dispatch makes the generator abort). What is actually transmitted is decided by the monitor.',
        technique='Coq reachability proof over a generated call graph + Coq proofs on register-file models with generated guards + request monitor on the real classes',
        design_ref='DESIGN.md section 5 (C18)'),
    stages=[SP.inv_stage('read-only-monitor', _mon_readonly_all, e2e=True)],
    theorems=['C18_monitoring_api_constructs_reads_only', 'C18_entry_points_read_only', 'C18_setters_do_reach_writes', 'C18_et_export_limit_rejects',
              'C18_dt_export_limit_rejects', 'C18_et_dod_rejects', 'C18_eco_mode_arguments_rejected', 'C18_model_reads_transmit_no_write'],
    rule='families x model configurations x capability fallbacks x read-only call sequences; invalid arguments around the valid intervals of every setter',
    trusted_base=['tools/callgraph.py (regenerates coq/Gen/CallGen.v on every run; fail-closed on dynamic dispatch / unclassifiable commands)'] + SP.TB_SENS[2:],
    assumptions=[],
)

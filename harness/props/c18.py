"""C18 -- reading never writes, and invalid setter arguments never reach the inverter."""
from . import sensorprop as SP
from .. import invmon as IM

SPEC = dict(
    level='proof',
    manifest=dict(
        text='Coq theorem over the call graph GENERATED from inverter.py / et.py / dt.py / es.py on this run (tools/callgraph.py): from every '
             'method of the monitoring API (read_device_info, read_runtime_data, read_sensor, read_setting, read_settings_data, get_*) of ET, DT '
             'and ES the transitive closure of self-calls constructs or references read commands only; connect/discover only call '
             'read_device_info / read_runtime_data / execute on read commands; (non-vacuity) the setters do reach write commands.  A monitor '
             'drives the API of the real classes against the simulated inverter over model configurations and capability fallbacks (also after '
             'legitimate writes of the same registers) and calls every setter with out-of-range arguments: no write is transmitted, ValueError '
             'where documented.',
        note='Static part: syntactic call graph (self-calls, command constructors classified by name and literal AA55 payload prefix; dynamic '
             'dispatch makes the generator abort). What is actually transmitted is decided by the monitor.',
        technique='Coq reachability proof over a generated call graph + request monitor on the real classes',
        design_ref='DESIGN.md section 5 (C18)'),
    stages=[SP.inv_stage('read-only-monitor', IM.mon_readonly)],
    theorems=['C18_monitoring_api_constructs_reads_only', 'C18_entry_points_read_only', 'C18_setters_do_reach_writes'],
    rule='families x model configurations x capability fallbacks x read-only call sequences; invalid arguments around the valid intervals of every setter',
    trusted_base=['tools/callgraph.py (regenerates coq/Gen/CallGen.v on every run; fail-closed on dynamic dispatch / unclassifiable commands)'] + SP.TB_SENS[2:],
    assumptions=[],
)

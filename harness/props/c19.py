"""C19 -- operation mode, export limit and DoD setters round-trip with their getters."""
from . import sensorprop as SP
from .. import invmon as IM

SPEC = dict(
    level='proof',
    manifest=dict(
        text='Coq theorems (exhaustive evaluation of the sensor model, lifted to universally quantified statements): for every power 1..100, '
             'SoC 0..100 and both eco-mode schedule types (plain / 745-platform scaling) the 12-byte group written for ECO_CHARGE decodes to '
             'power -p, SoC soc, the same type and is recognised as the full-time charge group; likewise discharge and the 8-byte v1 groups; the '
             'setter always selects an eco-mode type.  The group encoders of the model are compared with the real classes.  A monitor runs '
             'set_operation_mode / get_operation_mode for every offered mode x powers x SoCs x firmware variants (eco v1, v2, 745, no peak '
             'shaving) x prior group contents of every schedule type on ET and ES, and the export-limit / DoD round trips.  KNOWN FINDING: '
             'set_operation_mode(ECO) while group 1 holds a full-time group is reported as ECO_CHARGE / ECO_DISCHARGE.',
        note='The setter/getter sequences (which registers are written in which order) are decided by the monitor against the simulated inverter; '
             'the meaning of the ES setter commands (0359 work mode, 0335 export limit, register 0x560 DoD) is an assumption of the simulator.',
        technique='Coq proof by exhaustive evaluation of the encoders/decoders + encoder correspondence + mode round-trip monitor',
        design_ref='DESIGN.md section 5 (C19)'),
    stages=[SP.stage_encoders, SP.inv_stage('mode-roundtrip-monitor', IM.mon_modes)],
    theorems=['C19_charge_group', 'C19_discharge_group', 'C19_v1_groups', 'C19_schedule_type_selected'],
    rule='modes x powers x SoCs x firmware variants x prior eco-mode group contents (all schedule types) x ET/ES; export limits; DoD 0..100',
    trusted_base=SP.TB_SENS,
    assumptions=['SoC is a parameter of the charge group only; eco-mode v1 has no SoC field (reported as 100)'],
)

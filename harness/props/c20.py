"""C20 -- inverter objects are independent; returned values do not change afterwards."""
from . import sensorprop as SP
from .. import invmon as IM

SPEC = dict(
    level='other',
    manifest=dict(
        text='KNOWN FINDING (reproduced on every run): the EcoModeV1 / Schedule sensor definitions are class-level objects, mutated by '
             'read_value and returned to the caller; two inverter objects influence each other through them and a returned eco-mode value '
             'changes with later reads.  The unedited test-suite pins mutate-and-return-self, so it is recorded, not repaired.  The check runs '
             'interleavings of call sequences on two inverter objects (same / different families, platforms, firmware, transports) against two '
             'simulated inverters, compares per-object request transcripts and results with the solo runs and re-prints every returned value '
             'at the end; any difference that does not involve the eco-mode definitions is a violation.  In Coq the sensor model decodes every '
             'sensor as a function of the response bytes only (C20_decoding_has_no_hidden_state): that is the behaviour the code would have '
             'with fresh values, and it is what the correspondence of C11/C12 validates for single reads.',
        note='No theorem can establish independence for the code as it is (the property is false); the theorem is about the model only.',
        technique='two-object interleaving search with solo-run oracle + Coq statement of statelessness of the decoding model',
        design_ref='DESIGN.md section 5 (C20)'),
    stages=[SP.inv_stage('two-object-interleavings', IM.mon_indep)],
    theorems=['C20_decoding_has_no_hidden_state'],
    rule='fixed witnesses of the known finding + seeded interleavings of 2..5 calls per object (runtime data, settings, eco-mode groups, operation '
         'modes) on pairs drawn from ET (205 / 745, v1 / v2, RTU / TCP), DT, ES',
    trusted_base=SP.TB_SENS[2:],
    assumptions=[],
)

"""C20 -- inverter objects are independent; returned values do not change afterwards."""
import asyncio
from ..runner import Stage
from . import sensorprop as SP
from .. import invmon as IM, siminv as SI, coqrun as C, vloop as V, peer as PEER, frames as F

WATCH = [47000, 45248, 45252, 45356, 47510, 47511, 47512, 47533] + list(range(47547, 47571)) + list(range(47589, 47595))
DEF_IDS = ['eco_mode_1', 'eco_mode_2', 'eco_mode_3', 'eco_mode_4', 'peak_shaving_mode']
GROUPS = ['0000173bff7fffce00500000', '0000173bff7f003200640000', '0000173bf97ffe0c00500fff', '300030000000006400640000', '30003000550000640064ffff',
          '0000173bfc7f00c8003c0000', '01000200fe7f000000640000', '1600061eff1fffe200640000', '000000000000000000000000',
          # unreadable at various depths: hour, minute, on/off byte, power range (after the type was assigned), SoC range
          '1900173bf97f003200640fff', '0000174bf97f003200640fff', '0000173b207f003200640000', '0000173bf97f07d000500fff', '0000173bff7f012c00500000',
          '0000173bfc7f00c800c80000', '400000000000000000000000', 'ffffffffffffffffffffffff']
MODES = ['GENERAL', 'OFF_GRID', 'BACKUP', 'ECO', 'PEAK_SHAVING', 'SELF_USE', 'ECO_CHARGE', 'ECO_DISCHARGE']
MODE_C = {'GENERAL': 'MGeneral', 'OFF_GRID': 'MOffGrid', 'BACKUP': 'MBackup', 'ECO': 'MEco', 'PEAK_SHAVING': 'MPeakShaving', 'SELF_USE': 'MSelfUse',
          'ECO_CHARGE': 'MEcoCharge', 'ECO_DISCHARGE': 'MEcoDischarge'}
SCALARS = ['work_mode', 'eco_mode_2_switch', 'eco_mode_3_switch', 'battery_discharge_depth', 'grid_export_limit', 'backup_supply', 'cold_start']
FIELDS = ['start_h', 'start_m', 'end_h', 'end_m', 'on_off', 'day_bits', 'power', 'soc', 'month_bits']


def _enc_def(d):
    out = []
    for f in FIELDS:
        v = getattr(d, f)
        out += [0] if v is None else [1, int(v)]
    return out + [int(d.schedule_type)]


def _coq_def(d):
    return 'mkSdef ' + ' '.join('None' if getattr(d, f) is None else f'(Some {C.zs(int(getattr(d, f)))})' for f in FIELDS[:4] + ['on_off', 'day_bits', 'power', 'soc', 'month_bits']) + \
        ' None None ' + C.zs(int(d.schedule_type))


def _gen_op(rng):
    k = rng.choice(['read', 'read', 'readg', 'readg', 'write', 'writeg', 'writeg', 'setmode', 'setmode', 'setmode', 'getmode', 'getmode'])
    if k == 'read': return ('ORead', rng.choice(SCALARS))
    if k == 'readg': return ('ORead', rng.choice(DEF_IDS))
    if k == 'write':
        i = rng.choice(SCALARS + ['eco_mode_1', 'nonexistent'])
        return ('OWrite', i, rng.choice([0, 1, 2, 3, 4, 5, 50, 100, 255, -1, 7000]))
    if k == 'writeg':
        g = rng.choice(GROUPS)
        if rng.random() < 0.1: g = g[:16]
        return ('OWriteGroup', rng.choice(DEF_IDS), g)
    if k == 'setmode': return ('OSetMode', rng.choice(MODES), rng.choice([-1, 0, 1, 37, 50, 100, 101]), rng.choice([-1, 0, 80, 100, 101]))
    return ('OGetMode',)


def _coq_op(o):
    if o[0] == 'ORead': return f'ORead {C.cstr(o[1])}'
    if o[0] == 'OWrite': return f'OWrite {C.cstr(o[1])} {C.zs(o[2])}'
    if o[0] == 'OWriteGroup': return f'OWriteGroup {C.cstr(o[1])} {C.zl(bytes.fromhex(o[2]))}'
    if o[0] == 'OSetMode': return f'OSetMode {MODE_C[o[1]]} {C.zs(o[2])} {C.zs(o[3])}'
    return 'OGetMode'


def _do_op(goodwe, inv, o):
    OM = goodwe.OperationMode
    try:
        if o[0] == 'ORead':
            v = asyncio.run(inv.read_setting(o[1]))
            if hasattr(v, 'start_h'):
                return [3, v.start_h, v.start_m, v.end_h, v.end_m, v.power, v.on_off, v.day_bits, v.soc, v.month_bits, int(v.schedule_type)]
            return [2] if v is None else [1, int(v)] if isinstance(v, int) else [90]
        if o[0] == 'OWrite': asyncio.run(inv.write_setting(o[1], o[2])); return [5]
        if o[0] == 'OWriteGroup': asyncio.run(inv.write_setting(o[1], bytes.fromhex(o[2]))); return [5]
        if o[0] == 'OSetMode': asyncio.run(inv.set_operation_mode(OM[o[1]], o[2], o[3])); return [5]
        m = asyncio.run(inv.get_operation_mode())
        return [4, -1 if m is None else int(m)]
    except Exception as ex:     # noqa
        return [6, C.enc_exc(ex)[0]]


def _enc_log(entries):
    out = []
    for e in entries:
        if e.get('fn') == 3: out += [7, e['reg'], e['count']]
        elif e.get('fn') == 6: out += [8, e['reg'], 1, e['val'] & 0xFFFF]
        elif e.get('fn') == 16:
            p = e['payload']; out += [8, e['reg'], len(p) // 2] + [int.from_bytes(p[i:i + 2], 'big') for i in range(0, len(p), 2)]
        else: out += [99]
    return out


def _host_payload(salt):
    return lambda reg, count: bytes((b + salt) & 255 for b in F.tag_payload(reg, count))


def _transport_run(goodwe, objs, scripts, offsets):
    """objs: [(family, host, port)]; runs the calls concurrently on ONE virtual-time loop, every host behind its own scripted peer.
    -> per object (requests seen by its peer without the Modbus/TCP transaction id, outcome)"""
    loop = V.VLoop()
    by_host = {host: sc for (_, host, _), sc in zip(objs, scripts)}
    loop.peer_factory = lambda lp, sock, kind, remote: PEER.Peer(lp, sock, kind, remote, by_host[remote[0]])
    cls = dict(ET=goodwe.ET, DT=goodwe.DT, ES=goodwe.ES)

    async def one(fam, host, port, off):
        inv = cls[fam](host, port, 0, 1, 2)
        await asyncio.sleep(off / 1000)
        try:
            if fam == 'ES': r = await inv._read_from_socket(inv._READ_DEVICE_RUNNING_DATA)      # a command object shared by all ES objects
            else: r = await inv._read_from_socket(inv._READ_RUNNING_DATA)
            return ['ok', r.response_data().hex()]
        except Exception as ex:      # noqa
            return ['exc', type(ex).__name__]

    async def main(lp):
        return await asyncio.gather(*[one(f, h, p, o) for (f, h, p), o in zip(objs, offsets)])
    lp, out = V.run(main, loop)
    res = out[1] if out[0] == 'ok' else [[out[0], str(out[1])[:80]]] * len(objs)
    reqs = []
    for sc in scripts:
        reqs.append([(raw[2:] if len(raw) > 6 and raw[2:4] == b'\x00\x00' and raw[:2] != b'\xaa\x55' else raw).hex() for _, raw, _, _ in sc.log])
    return [(reqs[i], res[i]) for i in range(len(objs))], list(loop.loop_exceptions)


def stage_two_obj_transport(ctx):
    """two inverter objects polled CONCURRENTLY through the real protocol classes on one virtual-time loop, each behind its own scripted peer with its own
    register contents (answers whole, late but in time, in two fragments, dropped): every object must transmit the requests and obtain the outcome
    of its solo run with the same script"""
    st = Stage('two-object-transport-concurrency')
    rng = ctx.rng
    letters_pool = ['N', dict(late=0.5), dict(frag=7, delay=0.4, second='exact'), dict(frag=12, delay=0.3, second='exact'), 'D', 'F']
    pairs = [('ES', 8899, 'ES', 8899), ('ET', 8899, 'ET', 8899), ('DT', 8899, 'DT', 8899), ('ET', 502, 'ET', 502), ('ES', 8899, 'ET', 8899), ('DT', 502, 'DT', 8899), ('ES', 8899, 'DT', 8899)]
    trials = []
    for fa, pa, fb, pb in pairs:
        for off in (0, 100):          # both answers fragmented, interleaved A1 B1 A2 B2
            trials.append((fa, pa, fb, pb, [dict(frag=9, delay=0.4, second='exact')], [dict(frag=9, delay=0.4, second='exact')], [0, off]))
        for _ in range(2 if not ctx.deep else 20):
            trials.append((fa, pa, fb, pb, [rng.choice(letters_pool) for _ in range(rng.randrange(1, 4))], [rng.choice(letters_pool) for _ in range(rng.randrange(1, 4))],
                           [0, rng.choice([0, 50, 100, 300, 1000])]))
    for fa, pa, fb, pb, la, lb, offs in trials:
        goodwe = SI.reload_goodwe()
        objs = [(fa, '10.0.0.1', pa), (fb, '10.0.0.2', pb)]
        def scripts(): return [PEER.Script(list(la), default='N', timeout=1, payload_fn=_host_payload(17)), PEER.Script(list(lb), default='N', timeout=1, payload_fn=_host_payload(101))]
        together, exc = _transport_run(goodwe, objs, scripts(), offs)
        cfg = dict(A=dict(family=fa, port=pa, answers=[str(x) for x in la]), B=dict(family=fb, port=pb, answers=[str(x) for x in lb]), start_offsets_ms=offs)
        st.case(repr(cfg), sample=cfg if len(st.samples) < 3 else None)
        for i, name in enumerate('AB'):
            goodwe = SI.reload_goodwe()
            sc = scripts()[i]
            alone, _ = _transport_run(goodwe, [objs[i]], [sc], [offs[i]])
            if alone[0] != together[i]:
                what = 'requests' if alone[0][0] != together[i][0] else 'result'
                st.violation('transport-interference', f'object {name} ({objs[i][0]} port {objs[i][2]}): {what} differ when object {"BA"[i]} is polled concurrently: alone '
                                                       f'{len(alone[0][0])} request(s), outcome {str(alone[0][1])[:60]}; together {len(together[i][0])} request(s), outcome {str(together[i][1])[:60]}',
                             dict(config=cfg, object=name, alone=alone[0], together=together[i]))
        if exc: st.violation('loop-exception', f'exception in an event-loop callback while two objects are polled concurrently: {exc[0]}', dict(config=cfg))
    return st


def stage_two_obj_model(ctx):
    """Model/TwoObj.v (programs and shapes generated from the source) against two real ET objects (platform 205 and 745, ARM fw 22) on two
    simulated inverters in one process: every call's result and register transactions, and the attributes of the shared Schedule definition
    objects at the end, for random interleavings of read_setting / write_setting / set_operation_mode / get_operation_mode"""
    st = Stage('two-object-model-correspondence')
    n = 60 if not ctx.deep else 600
    cases, descr = [], []
    for trial in range(n):
        rng = ctx.rng
        goodwe = SI.reload_goodwe()
        plat = [rng.choice([False, True]), rng.choice([False, True])] if trial % 3 else [False, True]
        objs = []
        for is745 in plat:
            inv, sim = IM.make_et(goodwe, IM.ET_SERIALS['745 HV' if is745 else '205 three-phase'], 10000, (), 2, seed=rng.randrange(1 << 30), arm_fw=22)
            asyncio.run(inv.read_device_info())
            for base in (47547, 47553, 47559, 47565, 47589): sim.set_bytes(base, bytes.fromhex(rng.choice(GROUPS)))
            sim.set(47000, rng.choice([0, 1, 2, 3, 3, 3, 4, 5, 9]))
            objs.append((inv, sim))
        # some history on the shared definitions before the observed run starts
        for _ in range(rng.randrange(0, 3)):
            try: asyncio.run(objs[rng.randrange(2)][0].read_setting(rng.choice(DEF_IDS)))
            except Exception: pass      # noqa
        defs0 = {i: objs[0][0]._settings[i] for i in DEF_IDS}
        shared = all(objs[1][0]._settings[i] is defs0[i] for i in DEF_IDS)
        coq_defs = 'fun k => ' + ' '.join(f'if String.eqb k {C.cstr(i)} then {_coq_def(defs0[i])} else' for i in DEF_IDS) + ' sdef0 0 None'
        rfs = []
        for inv, sim in objs:
            rfs.append('fun a => ' + ' '.join(f'if a =? {a} then {sim.word(a)} else' for a in WATCH) + ' 0')
        ops = [(rng.randrange(2), _gen_op(rng)) for _ in range(rng.randrange(2, 9))]
        want = []
        for who, o in ops:
            inv, sim = objs[who]
            n0 = len(sim.log)
            r = _do_op(goodwe, inv, o)
            want += [who] + r + _enc_log(sim.log[n0:]) + [-9]
        for i in DEF_IDS: want += _enc_def(objs[0][0]._settings[i])
        l = '[' + '; '.join(f'({"true" if who else "false"}, {_coq_op(o)})' for who, o in ops) + ']'
        term = (f'enc_run om_values [{"; ".join(C.cstr(i) for i in DEF_IDS)}] (run (et_tctx {str(plat[0]).lower()} {str(plat[1]).lower()}) '
                f'(mkW ({rfs[0]}) ({rfs[1]}) ({coq_defs})) {l})')
        cfg = dict(platform_745=plat, ops=[(who, list(o)) for who, o in ops], definitions_shared=shared)
        cases.append((term, want)); descr.append(cfg)
        st.case(repr(cfg), sample=cfg if len(st.samples) < 3 else None)
    bad, err = C.eval_cases('c20two', 'PyFloat Sensors Settings TablesGen SettingsGen SchedDef SharedGen Modes ModesGen ModesInst TwoObj TwoObjInst', cases, shard=40)
    if err: st.violation('two-obj-eval', f'model evaluation failed: {err[:300]}', dict(error=err), no_input=True)
    for i in bad[:6]:
        st.violation('two-obj-mismatch', f'Model/TwoObj.v and two real ET objects disagree on {descr[i]}: implementation {cases[i][1]}',
                     dict(config=descr[i], implementation=cases[i][1], correspondence='TwoObj.run (generated programs) vs goodwe.et.ET on two simulators'), no_input=True)
    return st

SPEC = dict(
    level='proof',
    manifest=dict(
        text='The property is FALSE for the code as it is (two known findings, reproduced on every run; the unedited test-suite pins '
             'mutate-and-return-self of the eco-mode definitions, so they are recorded, not repaired).  It is decided on a Coq model of two ET objects '
             'in one process (Model/TwoObj.v: two register files, the shared Schedule definition objects with their Python attribute semantics '
             '-- a read that fails half-way keeps what it assigned --, read_setting / write_setting / set_operation_mode / get_operation_mode with '
             'results and register transactions) whose programs are generated from the current source (Schedule.read_value and EcoModeV1.read_value '
             'by tools/sv2v.py, the mode step lists by om2v.py, the write shapes by ws2v.py) and which is compared on every run with two real ET '
             'objects on two simulated inverters (results, request transcripts and the attributes of the shared definition objects).  '
             'C20_untouching_neighbour_does_not_interfere: for EVERY interleaving, register content and definition state, an object returns and '
             'transmits exactly what it does alone, whatever its own calls are, provided the calls on the other object do not touch a schedule '
             'definition; C20_requests_differ_refuted / C20_returned_value_changes_refuted: the two known findings as theorems with their witnesses.  '
             'C20_set_mode_is_the_c19_model / C20_mode_roundtrip_in_interleavings: the model agrees with the single-object model of C19, whose round trip '
             'therefore holds for an object inside every interleaving with an untouching neighbour.  C20_shared_state_inventory: a whole-package scan regenerated on every run (class-level / module-level containers, globals, mutable '
             'defaults, memoising decorators, every mutation site whose receiver is not fresh in the call or fresh per instance, the self-mutating '
             'sensor definition classes and their table rows) equals exactly what the model assumes is shared.  Everything outside the model (DT, ES, '
             'eco-mode v1, runtime data, transports, communication addresses) is covered by the interleaving search with the solo-run oracle.',
        note='The model covers ET objects with ARM firmware >= 22 (eco-mode v2 settings); the inventory is a syntactic over-approximation that '
             'fails closed (a new shared container or mutation site breaks the theorem, after which the interleaving search looks for a witness).',
        technique='Coq non-interference proof on a two-object model with generated programs + refutation theorems for the known findings + '
                  'generated shared-state inventory + model correspondence on two real objects + two-object interleaving search with solo-run oracle',
        design_ref='DESIGN.md section 5 (C20)'),
    stages=[stage_two_obj_model, stage_two_obj_transport, SP.inv_stage('two-object-interleavings', IM.mon_indep)],
    theorems=['C20_untouching_neighbour_does_not_interfere', 'C20_schedule_free_interleavings_are_independent', 'C20_touching_settings', 'C20_touching_modes',
              'C20_untouching_example', 'C20_requests_differ_refuted', 'C20_requests_differ_witness', 'C20_returned_value_changes_refuted',
              'C20_returned_value_changes_same_object', 'C20_shared_state_inventory', 'C20_schedule_read_value_is_the_model',
              'C20_eco_v1_read_value_is_the_model', 'C20_decoding_has_no_hidden_state', 'C20_set_mode_is_the_c19_model', 'C20_get_mode_is_the_c19_model',
              'C20_mode_roundtrip_in_interleavings'],
    rule='model correspondence: seeded interleavings of 2..8 calls (scalar and group reads / writes, all operation modes incl. out-of-range arguments, '
         'get_operation_mode) on two ET objects (platform 205 / 745) with readable, half-readable and unreadable groups; interleaving search: fixed '
         'witnesses of the known finding + seeded interleavings of 2..5 calls per object (runtime data, settings, eco-mode groups, operation '
         'modes) on pairs drawn from ET (205 / 745, v1 / v2, RTU / TCP), DT, ES',
    trusted_base=SP.TB_SENS[2:] + ['tools/sv2v.py (read_value translator and shared-state scan), tools/om2v.py, tools/ws2v.py; meaning of the statement languages in Model/SchedDef.v, Model/Modes.v, Model/TwoObj.v'],
    assumptions=[],
)

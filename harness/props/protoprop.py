"""Shared construction of the SPEC of the protocol properties (C04..C10)."""
from __future__ import annotations
from .. import proto_common as PCM

TB = ['Model/Proto.v: hand-written model of protocol.py + the asyncio fragment it uses (FIFO ready queue, futures, Lock of '
      'CPython 3.12, call_soon/call_later, selector transports, wait_for); tied to the code by trace validation: '
      'harness/prototrace.py runs the real classes under a virtual-time loop and Model/Proto.check_trace replays every loop '
      'callback with a white-box state projection (retry, transport, timer, live handles, future status, fragment, lock, waiters, sockets)',
      'CPython 3.12.1 asyncio (selector transports over AF_UNIX socketpairs, Lock, Task, wait_for) as executed by the harness; '
      'virtual clock (time() + selector) replaces wall-clock time',
      'harness/peer.py: scripted inverter (fault alphabet) living in the same loop']

ASSUME = ['the inverter (peer) sends data only in reaction to a transmission (model: EvIO requires an earlier send on that transport)',
          'timing claims (spacing of retransmissions = timeout, completion within one timeout) are checked by the monitors on the '
          'virtual clock, not by theorems: the Coq model has no clock',
          'not exhibited by the model: multi-threaded use, cancellation of a caller task by the application, OS buffering, real DNS/connect latency']


def spec(prop, theorems, text, note, technique, design, rule, extra_stages=(), level='proof', extra_tb=()):
    return dict(
        level=level,
        manifest=dict(text=text, note=note, technique=technique, design_ref=design),
        stages=list(extra_stages) + [PCM.stage_for(prop)],
        theorems=theorems,
        rule=rule,
        trusted_base=list(extra_tb) + TB,
        assumptions=ASSUME,
    )

"""Shared pieces of the sensor / inverter level properties C11..C20."""
from __future__ import annotations
from ..runner import Stage
from .. import sensorcorr as SC, siminv as SI, invmon as IM

TB_SENS = ['Model/Sensors.v + Py/PyFloat.v: hand-written model of goodwe/sensor.py (every Sensor class, read_*/decode_*/encode_* helpers, '
           'ProtocolResponse.seek/read, Sensor.read, _map_response) on binary64 floats of the Coq kernel; tied to the code by the sensor '
           'correspondence: every class on all 65536 contents of a 2-byte field (thorough; quick: boundary + seeded chunks of 256 values), '
           'every field of the eco-mode / schedule groups, boundary + random blocks (also truncated ones) for every table',
           'tools/tables.py: emits coq/Gen/TablesGen.v from /repo on every run (tables by introspection of the class attributes, Calculated '
           'lambdas translated from their ASTs, read commands from the constructed objects, meter filter limits from the ASTs); fail-closed',
           'harness/siminv.py: simulated inverter (register file, AA55 blocks, refusal ranges) behind a subclassed _read_from_socket, as the '
           "repository's own tests do"]


def stage_tables(ctx):
    st = Stage('sensor-correspondence-tables')
    SC.table_blocks(ctx, st)
    return st


def stage_fields(ctx):
    st = Stage('sensor-correspondence-fields')
    SC.field_sweeps(ctx, st)
    return st


def inv_stage(name, fn, e2e=False):
    """e2e: run the monitor a second time END TO END (siminv.e2e): the same calls through the real Udp / TcpInverterProtocol on the virtual-time loop,
    at quick depth (the violations of that pass are tagged in their message)"""
    def stage(ctx):
        st = Stage(name)
        goodwe = SI.reload_goodwe()
        fn(st, ctx, goodwe)
        if e2e:
            import copy
            n0 = len(st.violations)
            ctx2 = copy.copy(ctx); ctx2.deep = False; ctx2.search = False
            goodwe = SI.reload_goodwe()
            with SI.e2e():
                fn(st, ctx2, goodwe)
            for v in st.violations[n0:]:
                if hasattr(v, 'what'): v.what = '[end to end through the real protocol classes] ' + v.what
            st.stats['end_to_end_pass'] = True
        return st
    stage.__name__ = name
    return stage


def stage_encoders(ctx):
    st = Stage('encoder-correspondence')
    SC.encoder_corr(ctx, st)
    return st

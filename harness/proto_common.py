"""Scenario generators and the shared stage of the protocol properties C01, C04..C10: run scenarios on the real classes
under the virtual-time loop, (1) validate the trace against coq/Model/Proto.v, (2) evaluate the property monitors."""
from __future__ import annotations
import itertools, json
from .runner import Stage
from . import prototrace as T, protocorr as PC, protomon as MON

ALPHABET = 'DNLAGSBXFHUCEgdRr'


def req(k, at=0, reg=None, count=2, what='read'):
    d = dict(op='req', at=at, k=k, reg=100 + 10 * k if reg is None else reg, count=count)
    if what != 'read': d['what'] = what       # 'write': single register, value = count; 'multi': count registers of payload
    return d


def seq_reqs(n, gap=20000):
    return [req(k, at=k * gap) for k in range(n)]


def base(kind, ka, retries, letters, default='N', phases=None, **kw):
    d = dict(kind=kind, ka=ka, timeout=1, retries=retries, letters=letters, default=default, phases=phases or [seq_reqs(1)])
    d.update(kw)
    return d


def configs(deep):
    cs = [(k, ka, r) for k in ('udp', 'tcp') for ka in (False, True) for r in ((0, 2) if not deep else (0, 1, 2, 3))]
    return cs


def gen_c04(ctx):
    out = []
    depth = 2 if not ctx.deep else 3
    letters = ALPHABET
    cfgs = configs(ctx.deep)
    # exhaustive scripts up to depth (quick: all of depth 1-2 on a rotating configuration; thorough: every configuration)
    i = 0
    for n in range(1, depth + 1):
        for ls in itertools.product(letters, repeat=n):
            sel = cfgs if (ctx.deep and n <= 2) else [cfgs[i % len(cfgs)]]
            i += 1
            for (k, ka, r) in sel:
                out.append(base(k, ka, r, ''.join(ls), default='D' if i % 3 == 0 else 'N', phases=[seq_reqs(2)]))
    # silent inverter
    for (k, ka, r) in configs(True):
        out.append(base(k, ka, r, '', default='D', phases=[seq_reqs(2)]))
    # exception frames with every kind of code -- the codes of the Modbus table, 0, codes without an entry, the high ones -- at once, after a lost
    # transmission, and for reads, single and multiple writes: the request ends (rejected), it never hangs
    for code in ([0, 2, 6, 9, 12, 128, 255] if not ctx.deep else list(range(0, 16)) + [127, 128, 200, 255]):
        for (k, ka, r) in configs(False):
            for pre in ('', 'D'):
                if len(pre) > r: continue
                for what in (('read',) if not ctx.deep else ('read', 'write', 'multi')):
                    out.append(base(k, ka, r, list(pre) + [dict(exc=code)], default='N', phases=[[req(0, 0, reg=47000, count=2, what=what), req(1, 20000, reg=35100, count=2)]]))
    # TCP connect outcomes
    for cs in itertools.product(['ok', 'refused', 'unreach', 'hang'], repeat=2 if not ctx.deep else 3):
        for ka in (False, True):
            out.append(base('tcp', ka, ctx.rng.choice([0, 1, 2, 3]), ctx.rng.choice(['N', 'DN', 'CN', 'GN', '']), default='N',
                            phases=[seq_reqs(2)], connects=list(cs)))
    # random deeper ones
    for _ in range(150 if not ctx.deep else 3000):
        k, ka, r = ctx.rng.choice(cfgs)
        ls = ''.join(ctx.rng.choice(letters) for _ in range(ctx.rng.randrange(3, 9)))
        out.append(base(k, ka, r, ls, default=ctx.rng.choice('NDD'), phases=[seq_reqs(ctx.rng.randrange(1, 4))],
                        connects=[ctx.rng.choice(['ok', 'ok', 'refused', 'hang']) for _ in range(ctx.rng.randrange(0, 3))] if k == 'tcp' else []))
    for sc in out:
        if sc['kind'] == 'udp' and ctx.rng.random() < 0.25: sc['framing'] = 'aa55'
    return out


def gen_c05(ctx):
    """histories of outcomes preceding a SILENT request"""
    out = []
    hist = {'success': 'N', 'exhausted': None, 'rejected': 'X', 'error': 'R', 'late-error': 'r', 'closed': 'C', 'send-error': 'E',
            'garbage-then-ok': 'gN', 'success-after-1': 'DN', 'success-after-2': 'DDN', 'fragment-then-ok': 'HN', 'dup': 'U',
            'rejected-after-1': 'DX', 'rejected-after-2': 'DDX', 'error-after-1': 'DR', 'late-error-after-1': 'Dr', 'closed-after-1': 'DC',
            'rejected-after-garbage': 'GX', 'send-error-after-1': 'DE'}
    for (k, ka, r) in configs(ctx.deep):
        items = list(hist.items())
        combos = [(a,) for a in items] + ([(a, b) for a in items for b in items] if ctx.deep else
                                          [(ctx.rng.choice(items), ctx.rng.choice(items)) for _ in range(10)])
        for combo in combos:
            letters, n = '', 0
            for name, l in combo:
                if l is None: l = 'D' * (r + 1)
                elif '-after-' in name and len(l) - 1 > r: l = l[-1]
                letters += l; n += 1
            sc = base(k, ka, r, letters, default='D', phases=[seq_reqs(n + 1)])
            sc['history'] = [c[0] for c in combo]
            out.append(sc)
        # the silent request starts within one timeout of the end of the previous one(s) (anything armed for an earlier request and not
        # disarmed when that request ended -- by a transport error, a peer close, a rejection, an answer -- is still pending)
        quick_end = [('error', 'R'), ('closed', 'C'), ('send-error', 'E'), ('rejected', 'X'), ('success', 'N'), ('late-error', 'r'), ('late-answer', 'L')]
        for gap in (100, 300, 600, 900):
            for name, l in quick_end:
                sc = base(k, ka, r, l, default='D', phases=[seq_reqs(2, gap=gap)]); sc['history'] = [name]; out.append(sc)
            for (n1, l1), (n2, l2) in ([(a, b) for a in quick_end[:5] for b in quick_end[:5]] if ctx.deep else [(ctx.rng.choice(quick_end[:5]), ctx.rng.choice(quick_end[:5]))]):
                sc = base(k, ka, r, l1 + l2, default='D', phases=[seq_reqs(3, gap=gap)]); sc['history'] = [n1, n2]; out.append(sc)
        # use from a new event loop
        out.append(base(k, ka, r, 'N', default='D', phases=[seq_reqs(1), [req(5)]]))
        out.append(base(k, ka, r, 'D' * (r + 1), default='D', phases=[seq_reqs(1), [req(5)]]))
    return out


def gen_c06(ctx):
    out = []
    faults = 'DNLF'
    n_scripts = 60 if not ctx.deep else 600
    for _ in range(n_scripts):
        k = ctx.rng.choice(['udp', 'tcp']); ka = ctx.rng.random() < 0.5
        ncall = ctx.rng.randrange(2, 5)
        ops = [req(i, at=ctx.rng.choice([0, 0, 50, 100, 400, 900, 1000, 1100, 1500, 2000]), count=2) for i in range(ncall)]
        ls = ''.join(ctx.rng.choice(faults) for _ in range(ctx.rng.randrange(0, 7)))
        out.append(base(k, ka, ctx.rng.choice([1, 2, 3]), ls, default='N', phases=[ops]))
    for ls in itertools.product(faults, repeat=3):
        for k in ('udp', 'tcp'):
            out.append(base(k, ctx.rng.random() < 0.5, 2, ''.join(ls), default='N', phases=[[req(0, 0), req(1, 0), req(2, 300)]]))
    # a lost transmission, and a caller whose call STARTS while the retransmission is waiting for its (late) answer
    for k in ('udp', 'tcp'):
        for ka in (False, True):
            for late in (0.6, 0.8):
                for start3 in (1100, 1200, 1400, 1550):
                    out.append(base(k, ka, 2, ['D', dict(late=late)], default='N',
                                    phases=[[req(0, 0, count=2), req(1, 500, reg=300, count=2), req(2, start3, reg=500, count=2)]]))
                    out.append(base(k, ka, 2, ['D', dict(late=late)], default='N', phases=[[req(0, 0, count=2), req(1, start3, reg=300, count=2)]]))
    # a fragmented answer followed by answers that are late but in time (anything armed for the first request and not disarmed
    # fires inside the later requests), three queued callers
    for k in ('udp', 'tcp'):
        for ka in (False, True):
            for d1, late in ((0.4, 0.8), (0.3, 0.9), (0.1, 0.95), (0.6, 0.7)):
                for tail in (['N'], [dict(late=late)], ['D', 'N']):
                    ls = [dict(frag=(6 if k == 'udp' else 10), delay=d1, second='exact'), dict(late=late)] + tail
                    out.append(base(k, ka, 2, ls, default='N', phases=[[req(0, 0, count=2), req(1, 0, reg=300, count=2), req(2, 0, reg=500, count=2)]]))
    # callers that queue for longer than a whole request budget: the first caller exhausts its retries while three more wait for the lock,
    # then answers that are late but in time (a deadline that counts the time spent queued would expire while a transmission is in flight)
    fam = []
    for r in (0, 1, 2, 3):
        for tail in itertools.product(['D', dict(late=0.6), dict(late=0.9), 'N'], repeat=3):
            for k in ('udp', 'tcp'):
                for ka in (True, False):
                    starts = [0, 100, 200, 300] if r < 3 else [0, 0, 0, (r + 1) * 1000]
                    fam.append(base(k, ka, r, ['D'] * (r + 1) + list(tail), default='N',
                                    phases=[[req(i, at, reg=100 + 100 * i, count=2) for i, at in enumerate(starts)]]))
    out += fam if ctx.deep else ctx.rng.sample(fam, 60)
    # (the first piece of a fragmented answer always contains the whole header: a shorter piece is an invalid response to the library, C07)
    for _ in range(20 if not ctx.deep else 300):
        k = ctx.rng.choice(['udp', 'tcp']); ka = ctx.rng.random() < 0.6
        ncall = ctx.rng.randrange(2, 5)
        ops = [req(i, at=ctx.rng.choice([0, 0, 0, 100, 400, 900]), reg=100 + 200 * i, count=2) for i in range(ncall)]
        ls = [ctx.rng.choice(['N', 'D', 'L', dict(late=ctx.rng.choice([0.6, 0.8, 0.9, 0.95])), dict(frag=(ctx.rng.choice([6, 7, 8]) if k == 'udp' else ctx.rng.choice([10, 11, 12])), delay=ctx.rng.choice([0.1, 0.4, 0.7]), second='exact')])
              for _ in range(ctx.rng.randrange(1, 6))]
        out.append(base(k, ka, ctx.rng.choice([1, 2]), ls, default='N', phases=[ops]))
    return out


def gen_c07(ctx):
    out = []
    for framing in ('udp', 'tcp', 'aa55'):
        kind = 'tcp' if framing == 'tcp' else 'udp'
        for cnt in ((1, 5) if not ctx.deep else (1, 2, 5, 20, 60, 125 if framing != 'aa55' else 100)):
            flen = 2 * cnt + (7 if framing == 'udp' else 9)
            splits = range(1, flen) if (ctx.deep or flen <= 20) else sorted(set([1, 2, 4, 5, 6, 8, 9, 10, flen - 2, flen - 1] + [ctx.rng.randrange(1, flen) for _ in range(4)]))
            for k in splits:
                for second, delay in [('exact', 0), ('exact', 0.4), ('exact', 1.5)] + \
                        ([('plus', 0.2), ('minus', 0.2), ('corrupt', 0.2), ('foreign', 0.2), ('none', 0)] if (ctx.deep or k in (5, 9, 10, flen - 1)) else []):
                    for ka in ((False, True) if (ctx.deep or second == 'exact') else (ctx.rng.random() < 0.5,)):
                        sc = base(kind, ka, 2, [dict(frag=k, delay=delay, second=second)], default='N',
                                  phases=[[req(0, 0, reg=100, count=cnt), req(1, 20000, reg=300, count=cnt)]])
                        if framing == 'aa55': sc['framing'] = 'aa55'
                        out.append(sc)
    # the first piece itself arrives late (but within the timeout), the exact remainder within the timeout after it -- also when both delays together
    # exceed one timeout (the timer is re-armed by the first piece: mechanism 2 of the property)
    for framing in ('udp', 'tcp', 'aa55'):
        kind = 'tcp' if framing == 'tcp' else 'udp'
        for cnt in (1, 5):
            flen = 2 * cnt + (7 if framing == 'udp' else 9)
            hdr = 5 if framing == 'udp' else 9
            for k in sorted({hdr, hdr + 1, flen - 1}):
                for first, delay in ((0.3, 0.3), (0.6, 0.6), (0.5, 0.7), (0.8, 0.5), (0.9, 0.9)) if (ctx.deep or k == hdr) else ((0.6, 0.6),):
                    for ka in (False, True):
                        sc = base(kind, ka, 2, [dict(frag=k, first=first, delay=delay, second='exact')], default='N',
                                  phases=[[req(0, 0, reg=100, count=cnt), req(1, 20000, reg=300, count=cnt)]])
                        if framing == 'aa55': sc['framing'] = 'aa55'
                        out.append(sc)
    # register contents that look like protocol bytes: every register holds 0xAA55 (the response header), 0xF703, 0xFFFF, 0x0000 -- a remainder then
    # starts with header-like bytes at every even split point
    for pay in ('aa55', 'f703', 'ffff', '0000', '55aa'):
        for framing in ('udp', 'tcp', 'aa55'):
            kind = 'tcp' if framing == 'tcp' else 'udp'
            cnt = 4
            flen = 2 * cnt + (7 if framing == 'udp' else 9)
            hdr = 5 if framing == 'udp' else 9
            for k in (range(hdr, flen) if (ctx.deep or pay == 'aa55') else (hdr, hdr + 2, hdr + 3)):
                sc = base(kind, k % 2 == 0, 2, [dict(frag=k, delay=0.3, second='exact')], default='N', phases=[[req(0, 0, reg=100, count=cnt), req(1, 20000, reg=300, count=cnt)]])
                sc['payload'] = pay
                if framing == 'aa55': sc['framing'] = 'aa55'
                out.append(sc)
    # Modbus/TCP answers whose MBAP length field is wrong (known firmware quirk, the library ignores the field), split in two
    for delta in (1, -1, 3, 250):
        for cnt in (1, 5):
            flen = 2 * cnt + 9
            for k in ([9, 10, flen - 1] if not ctx.deep else range(1, flen)):
                out.append(base('tcp', k % 2 == 0, 2, [dict(frag=k, delay=0.2, second='exact', mbap=delta)], default='N',
                                phases=[[req(0, 0, reg=100, count=cnt), req(1, 20000, reg=300, count=cnt)]]))
    # lone fragment, timeout, retransmission, then the foreign remainder of equal length (stale fragment)
    for kind in ('udp', 'tcp'):
        for ka in (False, True):
            out.append(base(kind, ka, 2, ['H', dict(frag=6 if kind == 'udp' else 10, delay=0.1, second='exact')], default='N',
                            phases=[[req(0, 0, count=4), req(1, 20000, count=4)]]))
            out.append(base(kind, ka, 2, ['H', 'N', 'H', 'N'], default='N', phases=[[req(0, 0, count=4), req(1, 20000, count=4)]]))
    return out


def gen_c08(ctx):
    out = []
    codes = range(256) if ctx.deep else list(range(0, 13)) + [16, 17, 127, 128, 255] + [ctx.rng.randrange(256) for _ in range(4)]
    i = 0
    for code in codes:
        for kind in ('udp', 'tcp'):
            ka = (i % 2 == 0); i += 1
            out.append(base(kind, ka, 2, [dict(exc=code)], default='N', phases=[seq_reqs(2)]))
    for kind in ('udp', 'tcp'):
        for ka in (False, True):
            for pre in ('D', 'DD', 'G', 'H', 'A'):
                out.append(base(kind, ka, 3, list(pre) + [dict(exc=ctx.rng.choice([1, 2, 3, 4, 6, 11]))], default='N', phases=[seq_reqs(2)]))
            # two consecutive probes rejected with the same code (ET's capability probes)
            out.append(base(kind, ka, 3, ['D', dict(exc=2), dict(exc=2)], default='N', phases=[seq_reqs(3)]))
    # the exception answer to a WRITE (function 6 -> 0x86) and to a WRITE MULTIPLE (function 16 -> 0x90), first transmission and retransmission
    for what in ('write', 'multi'):
        for code in ([1, 2, 3, 4, 6, 11, 9] if not ctx.deep else list(range(0, 13)) + [127, 255]):
            for kind in ('udp', 'tcp'):
                for ka in (False, True):
                    for pre in ([], ['D']):
                        out.append(base(kind, ka, 2, pre + [dict(exc=code)], default='N',
                                        phases=[[req(0, 0, reg=47000, count=3, what=what), req(1, 20000, reg=47001, count=2, what=what)]]))
    return out


def gen_c09(ctx):
    out = gen_c04(ctx)[:: (3 if not ctx.deep else 1)]
    for kind in ('udp', 'tcp'):
        for ka in (False, True):
            for ls in ('R', 'r', 'C', 'E', 'RR', 'rN', 'CC', 'EE', 'RN', 'ER', 'gR', 'UR', 'Nr', 'NR'):
                out.append(base(kind, ka, 2, ls, default='N', phases=[seq_reqs(3)]))
    return out


def gen_c10(ctx):
    out = []
    letters = ALPHABET
    n = 250 if not ctx.deep else 3000
    for _ in range(n):
        k = ctx.rng.choice(['udp', 'tcp']); ka = ctx.rng.random() < 0.5
        ops, t = [], 0
        for i in range(ctx.rng.randrange(2, 5)):
            if ctx.rng.random() < 0.25: ops.append(dict(op='close', at=t, k=i))
            else: ops.append(req(i, at=t))
            t += 20000
        ls = ''.join(ctx.rng.choice(letters) for _ in range(ctx.rng.randrange(0, 6)))
        phases = [ops]
        if ctx.rng.random() < 0.4:
            phases.append([req(10, 0), req(11, 20000)])
        if ctx.rng.random() < 0.2:
            phases.append([dict(op='close', at=0, k=20)] if ctx.rng.random() < 0.5 else [req(20, 0)])
        out.append(base(k, ka, ctx.rng.choice([0, 1, 2]), ls, default='N', phases=phases))
    # recovery: after any outcome the next request (answered promptly) works
    for k in ('udp', 'tcp'):
        for ka in (False, True):
            for l in letters:
                r = 1
                fail = l * (r + 1)
                out.append(base(k, ka, r, fail, default='N', phases=[seq_reqs(3)], final_polite=True))
                out.append(base(k, ka, r, fail, default='N', phases=[seq_reqs(2), [req(5)]], final_polite=True))
            out.append(base(k, ka, 1, 'N', default='N', phases=[[req(0), dict(op='close', at=20000, k=1), req(2, 40000)]], final_polite=True))
    # a request that starts shortly after an answer that arrived in two pieces (or late), and is itself answered completely but late in time: whatever
    # the earlier request left armed must not touch it -- one transmission, success, and with keep-alive on the same transport
    for k in ('udp', 'tcp'):
        for ka in (False, True):
            for r in (0, 2):
                for first in (dict(frag=(6 if k == 'udp' else 10), delay=0.25, second='exact'), dict(frag=(8 if k == 'udp' else 12), delay=0.5, second='exact'), dict(late=0.5), 'N'):
                    for gap in ((300, 700) if not ctx.deep else (300, 500, 700, 900)):
                        for late in (0.6, 0.9):
                            d = first.get('delay', first.get('late', 0)) if isinstance(first, dict) else 0
                            if gap <= d * 1000: continue
                            out.append(base(k, ka, r, [first, dict(late=late)], default='N', in_time=True, final_polite=True,
                                            phases=[[req(0, 0, reg=100, count=4), req(1, gap, reg=300, count=4), req(2, 20000, reg=500, count=2)]]))
    return out


def gen_stale(ctx):
    """a fragment left by an earlier transmission whose missing-byte count equals the length of a later complete frame"""
    out = []
    for framing, kind, k, c1, c2 in (('udp', 'udp', 6, 4, 1), ('tcp', 'tcp', 10, 6, 1), ('aa55', 'udp', 10, 6, 1), ('udp', 'udp', 6, 10, 7), ('tcp', 'tcp', 10, 20, 15)):
        for ka in (False, True):
            for r in (0, 1, 2):
                for tail in ('', 'N'):
                    letters = [dict(frag=k, second='none')] + ['D'] * r if not tail else [dict(frag=k, second='none'), 'N']
                    if tail and r == 0: continue
                    sc = base(kind, ka, r, letters, default='N', phases=[[req(0, 0, reg=100, count=c1), req(1, 20000, reg=300, count=c2)]])
                    if framing == 'aa55': sc['framing'] = 'aa55'
                    out.append(sc)
    return out


def gen_c02(ctx):
    out = gen_stale(ctx)
    for (k, ka, r) in configs(ctx.deep):
        for ls in ('N', 'DN', 'GN', 'HN', 'SN', 'UN', 'XN', 'AN', 'LN', 'BN', 'dN'):
            if len(ls) - 1 > r: continue
            out.append(base(k, ka, r, ls, default='N', phases=[seq_reqs(3)]))
    # every kind of request answered at once with its conforming response: read, single-register write, multi-register write
    for (k, ka, r) in configs(ctx.deep):
        for what in ('write', 'multi', 'read'):
            for ls in ('N', 'DN'):
                if len(ls) - 1 > r: continue
                out.append(base(k, ka, r, ls, default='N', phases=[[req(0, 0, reg=47510, count=5, what=what), req(1, 20000, reg=45127, count=1, what=what)]]))
    for sc in out:
        if sc['kind'] == 'udp' and 'framing' not in sc and ctx.rng.random() < 0.3: sc['framing'] = 'aa55'
    return out


def gen_c03(ctx):
    out = []
    for ka in (False, True):
        for r in (1, 2, 3):
            for ls in ('D' * r + 'N', 'N', 'DN', 'GN', 'C' + 'N', 'DDD', 'AN'):
                out.append(base('tcp', ka, r, ls, default='N', phases=[seq_reqs(3)]))
                out.append(base('udp', ka, r, ls, default='N', phases=[seq_reqs(2)]))
    for sc in out[1::4]:
        if sc['kind'] == 'udp': sc['framing'] = 'aa55'
    return out


def gen_c01(ctx):
    out = gen_c04(ctx)[:: (6 if not ctx.deep else 2)] + gen_c07(ctx)[:: (8 if not ctx.deep else 3)]
    # the answer arrives glued to a well-formed answer to another request; alone, after a lost transmission, after a late one
    for (k, ka, r) in configs(ctx.deep):
        for ls in ('k', 'Dk', 'Ak', 'kN', 'gk'):
            if len(ls) - 1 > r and ls != 'kN': continue
            for what in ('read', 'write', 'multi'):
                out.append(base(k, ka, max(r, 1), ls, default='N', phases=[[req(0, 0, reg=47510, count=1, what=what), req(1, 20000, reg=35100, count=4)]]))
    # two callers at once: while the first waits for its answer the second (another kind of request, another register, another count) queues for
    # its turn; the peer answers the first caller's transmission with a well-formed answer to the SECOND caller's request (then answers properly)
    for (k, ka, r) in configs(ctx.deep):
        for (a_what, a_reg, a_cnt), (b_what, b_reg, b_cnt) in ((('read', 47510, 1), ('read', 35100, 4)), (('read', 47510, 1), ('write', 47510, 7)),
                                                                 (('write', 47511, 3), ('read', 47511, 1)), (('read', 35100, 4), ('read', 35100, 6)),
                                                                 (('multi', 47547, 4), ('read', 47547, 4))):
            other = dict(reg=b_reg, val=b_cnt, count=b_cnt, fn={'read': 3, 'write': 6, 'multi': 16}[b_what])
            for ls in ([dict(other=other)], ['D', dict(other=other)], [dict(other=other, delay=0.6), dict(other=other)]):
                if len(ls) - 1 > r: continue
                out.append(base(k, ka, max(r, 1), ls, default='N',
                                phases=[[req(0, 0, reg=a_reg, count=a_cnt, what=a_what), req(1, 100, reg=b_reg, count=b_cnt, what=b_what)]]))
    for sc in out:
        if sc['kind'] == 'udp' and 'framing' not in sc and ctx.rng.random() < 0.2: sc['framing'] = 'aa55'
    return out


GEN = dict(C02=gen_c02, C03=gen_c03, C01=gen_c01, C04=gen_c04, C05=gen_c05, C06=gen_c06, C07=lambda ctx: gen_c07(ctx) + gen_stale(ctx), C08=gen_c08,
           C09=gen_c09, C10=gen_c10)


def sc_key(sc):
    return json.dumps({k: v for k, v in sc.items()}, sort_keys=True, default=str)


def clean_sc(sc):
    return json.loads(json.dumps({k: v for k, v in sc.items()}, default=lambda o: None))


def stage_for(prop):
    def stage(ctx):
        st = Stage('trace-validation+monitor')
        scs = GEN[prop](ctx)
        cap = ctx.__dict__.get('max_scenarios')
        runs = []
        letters_hist = {}
        for sc in scs:
            sc0 = clean_sc(sc)
            try:
                run = T.run_scenario(sc)
            except Exception as ex:
                import traceback
                st.violation('harness-crash', f'scenario crashed the harness: {type(ex).__name__}: {ex}',
                             dict(scenario=sc0, traceback=traceback.format_exc()), no_input=True)
                continue
            runs.append((sc0, run))
            st.case(sc_key(sc0), sample=dict(scenario=sc0, outcomes={k: (v[0], v[1].hex() if isinstance(v[1], bytes) else repr(v[1]))
                                                                        for k, v in run['results'].items()}))
            for l in (sc.get('letters') or ''):
                if isinstance(l, str): letters_hist[l] = letters_hist.get(l, 0) + 1
            for mon in MON.MONITORS[prop]:
                for key, msg in mon(run):
                    st.violation(key, msg, dict(scenario=sc0, monitor=mon.__name__))
            # counter-example search: once plenty of concrete failing scenarios are at hand, stop running more of them
            if sum(1 for v in st.violations if not v.no_input) >= 15 or sum(st.per_key.values()) >= 60:
                st.notes.append('stopped early: enough concrete failing scenarios')
                break
        bad, err = PC.check_runs(prop.lower(), [r for _, r in runs])
        if err:
            st.violation('trace-eval', f'model evaluation failed: {err[:500]}', dict(error=err), no_input=True)
        for i, (step, why, mproj, macts) in bad[:10]:
            sc0, run = runs[i]
            es = run['entries']
            window = [dict(t=e['t'], event=repr(e['tev']), proj=e['proj'], acts=e['acts']) for e in es[max(0, step - 3):step + 1]]
            # a broken correspondence is not by itself a violation: the monitors above searched the same runs
            st.violation('trace-mismatch', f'Model/Proto.v does not replay the real run at step {step}: {PC.WHY.get(why, why)} '
                                           f'(model projection {mproj}, model actions {macts})',
                         dict(scenario=sc0, step=step, window=window, correspondence='check_trace (Model/Proto.v) vs harness/prototrace.py'),
                         no_input=True)
        st.stats['traces_validated'] = len(runs) - len(bad)
        st.stats['states'] = sum(len(r['entries']) for _, r in runs)
        st.stats['letters'] = letters_hist
        st.stats['hangs'] = sum(1 for _, r in runs if r['hang'])
        st.stats['outcomes'] = {}
        for _, r in runs:
            for d in r['tracer'].dones:
                c = MON.classify(d['out'], r['tracer'].X) if d['op']['op'] == 'req' else 'closed'
                st.stats['outcomes'][c] = st.stats['outcomes'].get(c, 0) + 1
        return st
    stage.__name__ = f'stage_proto_{prop}'
    return stage

"""Trace validation of coq/Model/Proto.v against the real protocol classes (see prototrace.py)."""
from __future__ import annotations
import os, re, subprocess, concurrent.futures as cf
from . import prototrace as T, coqrun as C

COQ = C.COQ
CASES = C.CASES


def _run(path):
    try:
        p = subprocess.run(['coqc'] + C.QFLAGS + [path], cwd=COQ, capture_output=True, text=True, timeout=900)
        return p.returncode, p.stdout + p.stderr
    except subprocess.TimeoutExpired:
        return 124, 'timeout'


def check_runs(tag: str, runs: list, shard: int = 40, jobs: int = 14):
    """runs: outputs of prototrace.run_scenario.  Returns list of (run index, (step, why, model_proj, model_acts)) + error text"""
    os.makedirs(CASES, exist_ok=True)
    for f in os.listdir(CASES):
        if f.startswith(f'ptrace_{tag}_'): os.remove(os.path.join(CASES, f))
    files = []
    for k in range(0, len(runs), shard):
        path = os.path.join(CASES, f'ptrace_{tag}_{k // shard}.v')
        with open(path, 'w') as f:
            f.write('From Coq Require Import List Arith.\nFrom GW Require Import Proto.\nImport ListNotations.\n')
            for i, r in enumerate(runs[k:k + shard]):
                init, tr = T.coq_trace(r)
                f.write(f'Definition r{i} := check_trace 0 {init}\n {tr}.\n')
            f.write('Eval vm_compute in [' + '; '.join(f'r{i}' for i in range(len(runs[k:k + shard]))) + '].\n')
        files.append((k, path))
    bad, errs = [], []
    with cf.ThreadPoolExecutor(max_workers=jobs) as ex:
        for (k, path), (rc, out) in zip(files, ex.map(_run, [p for _, p in files])):
            if rc != 0:
                errs.append(f'{os.path.basename(path)}: rc={rc} {out[-1500:]}'); continue
            flat = ' '.join(out.split())
            m = re.search(r'=\s*\[(.*)\]\s*:\s*list', flat)
            if not m:
                errs.append(f'{os.path.basename(path)}: unparsable {flat[-300:]}'); continue
            items = split_top(m.group(1))
            for i, it in enumerate(items):
                it = it.strip()
                if it == 'None': continue
                mm = re.match(r'Some \((\d+), (\d+), \[(.*?)\], \[(.*?)\]\)', it)
                if mm:
                    bad.append((k + i, (int(mm.group(1)), int(mm.group(2)),
                                        [int(x) for x in mm.group(3).split(';') if x.strip()],
                                        [int(x) for x in mm.group(4).split(';') if x.strip()])))
                else:
                    bad.append((k + i, (-1, -1, [], [])))
    for _, path in files:
        base = path[:-2]
        for ext in ('.vo', '.vok', '.vos', '.glob'):
            try: os.remove(base + ext)
            except OSError: pass
        d, b = os.path.split(base)
        try: os.remove(os.path.join(d, '.' + b + '.aux'))
        except OSError: pass
    return bad, '\n'.join(errs)


def split_top(s):
    out, depth, cur = [], 0, ''
    for ch in s:
        if ch in '([': depth += 1
        if ch in ')]': depth -= 1
        if ch == ';' and depth == 0:
            out.append(cur); cur = ''
        else: cur += ch
    if cur.strip(): out.append(cur)
    return out


WHY = {1: 'the model considers the event impossible in this state', 2: 'the model expects another callback at the head of the ready queue',
       3: 'the model has an empty ready queue', 4: 'state projection differs', 5: 'actions differ'}

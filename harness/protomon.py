"""Property monitors evaluated on runs of the REAL protocol classes (harness/prototrace.py).  Each monitor states
the observable claim of one property; they are the counter-example search when a proof or the trace
validation breaks, and they run on every check.  A monitor returns a list of (key, message)."""
from __future__ import annotations
from . import frames as F


def per_request(run):
    tr = run['tracer']
    out = {}
    for d in tr.dones:
        if d['op']['op'] != 'req': continue
        k = d['k']
        out[k] = dict(done=d, sends=[s for s in tr.sends if s['k'] == k], op=d['op'])
    return out


def classify(out, X):
    if out[0] == 'ok': return 'ok'
    ex = out[1]
    if isinstance(ex, X.RequestRejectedException): return 'rejected'
    if isinstance(ex, X.RequestFailedException): return 'failed'
    if isinstance(ex, X.MaxRetriesException) or ex is X.MaxRetriesException: return 'maxretries'
    return 'other:' + type(ex).__name__


def sequential(run):
    ops = [op for ph in run['sc']['phases'] for op in ph if op['op'] == 'req']
    ats = [op.get('at', 0) for op in ops]
    return all(b - a >= 15000 for a, b in zip(ats, ats[1:])) or len(ops) <= 1


def sequential_dyn(run, reqs):
    """one caller at a time as it actually happened: every request had returned when the next one started (whatever the gap)"""
    ops = sorted([op for ph in run['sc']['phases'] for op in ph if op['op'] == 'req'], key=lambda o: o.get('at', 0))
    if len(run['sc']['phases']) != 1: return False
    for a, b in zip(ops, ops[1:]):
        r = reqs.get(a['k'])
        if r is None or r['done']['t'] > b.get('at', 0): return False
    return True


def strip_tx(kind, data):
    return data[2:] if kind == 'tcp' else data


def mon_c04(run):
    v = []
    sc, tr = run['sc'], run['tracer']
    X = tr.X
    T, R = int(sc.get('timeout', 1) * 1000), sc.get('retries', 3)
    if run['hang']:
        v.append(('hang', f"request never terminated: {run['hang']}"))
        return v
    reqs = per_request(run)
    nreq = sum(1 for ph in sc['phases'] for op in ph if op['op'] == 'req')
    if len(reqs) != nreq: v.append(('hang', f'{nreq - len(reqs)} request(s) did not complete'))
    seq = sequential(run)
    nhang = sum(1 for c in sc.get('connects', []) if c == 'hang')
    for k, r in reqs.items():
        c = classify(r['done']['out'], X)
        if c.startswith('other'): v.append(('outcome', f'request {k} ended with {c}'))
        if seq and len(r['sends']) > R + 1:
            v.append(('too-many-transmissions', f'request {k}: {len(r["sends"])} transmissions with retries={R}: at {[s["t"] for s in r["sends"]]}'))
        if seq and r['sends']:
            # no later than one timeout after the last event of the final attempt (+ 5 s per hanging TCP connect)
            last = max([s['t'] for s in r['sends']] + [x['t'] for x in tr.recvs if x['t'] <= r['done']['t']])
            if r['done']['t'] > last + T + 5000 * nhang + 1:
                v.append(('late-completion', f'request {k} completed at {r["done"]["t"]} ms, last event of its final attempt at {last} ms, timeout {T} ms'))
    # silent inverter: exactly retries+1 identical transmissions one timeout apart, failure one timeout after the last
    letters = sc.get('letters', '')
    if seq and not sc.get('connects') and (len(letters) == 0 or all(l == 'D' for l in letters)) and sc.get('default') == 'D':
        for k, r in reqs.items():
            ts = [s['t'] for s in r['sends']]
            want = [ts[0] + i * T for i in range(R + 1)] if ts else []
            if ts != want or len({strip_tx(sc['kind'], s['data']) for s in r['sends']}) > 1:
                v.append(('silent-schedule', f'silent inverter, request {k}: transmissions at {ts} ms, expected {R + 1} identical ones {T} ms apart'))
            elif r['done']['t'] != ts[0] + (R + 1) * T:
                v.append(('silent-schedule', f'silent inverter, request {k}: failure reported at {r["done"]["t"]} ms, expected {ts[0] + (R + 1) * T}'))
            if classify(r['done']['out'], X) not in ('failed', 'maxretries'):
                v.append(('silent-schedule', f'silent inverter, request {k}: outcome {classify(r["done"]["out"], X)}'))
    return v


def mon_c05(run):
    """the LAST request of a sequential scenario is silent (script exhausted, default 'D'): it must get the full budget"""
    v = []
    sc, tr = run['sc'], run['tracer']
    if run['hang'] or sc.get('default') != 'D': return v
    T, R = int(sc.get('timeout', 1) * 1000), sc.get('retries', 3)
    reqs = per_request(run)
    if not reqs: return v
    if not (sequential(run) or sequential_dyn(run, reqs)): return v
    k = max(reqs)
    r = reqs[k]
    if run['script'].i - len(r['sends']) < len(sc.get('letters', '')): return v     # the last request was not entirely silent
    ts = [s['t'] for s in r['sends']]
    if len(ts) != R + 1 or any(b - a != T for a, b in zip(ts, ts[1:])):
        v.append(('budget', f'silent request {k} after history {sc.get("letters")!r}: transmissions at {ts} ms, expected {R + 1} spaced {T} ms'))
    return v


def mon_c06(run):
    v = []
    sc, tr = run['sc'], run['tracer']
    X = tr.X
    T = int(sc.get('timeout', 1) * 1000)
    reqs = per_request(run)      # completed requests only: the checks below also apply to what happened before a hang
    if run['hang']:
        started = {op['k'] for ph in sc['phases'] for op in ph if op['op'] == 'req'}
        missing = sorted(started - set(reqs))
        v.append(('caller-never-completes', f'the run does not terminate: the calls of tasks {missing} never return (every transmission was answered at most once and in time or dropped)'))
    # (a) one request on the wire at a time
    sends = sorted(tr.sends, key=lambda s: s['t'])
    for i, s in enumerate(sends):
        for p in sends[:i]:
            if p['k'] == s['k']: continue
            answered = any(x['tid'] == p['tid'] and p['t'] <= x['t'] <= s['t'] and x['verdict'][0] in ('accept', 'rejected') for x in tr.recvs)
            done_before = reqs.get(p['k']) and reqs[p['k']]['done']['t'] <= s['t']
            later_own = any(q['k'] == p['k'] and q['t'] > p['t'] and q['t'] <= s['t'] for q in sends)
            if not answered and not done_before and not later_own and s['t'] < p['t'] + T:
                v.append(('overlap', f'task {s["k"]} transmitted at {s["t"]} ms while the transmission of task {p["k"]} at {p["t"]} ms was still waiting for its answer'))
    # (b) own answers
    for k, r in reqs.items():
        out = r['done']['out']
        if out[0] == 'ok':
            op = r['op']
            want = F.tag_payload(op.get('reg', 100 + 10 * k), op.get('count', 2))
            resp = op['cmd'].trim_response(out[1])
            if resp[:len(want)] != want:
                v.append(('foreign-answer', f'task {k} (registers {op.get("reg")}+{op.get("count")}) received {resp.hex()} instead of {want.hex()}'))
    return v


def mon_c07(run):
    """scenarios whose first letter is a fragment spec dict"""
    v = []
    sc, tr = run['sc'], run['tracer']
    if run['hang']: return v
    T = int(sc.get('timeout', 1) * 1000)
    reqs = per_request(run)
    L = sc.get('letters') or []
    spec = L[0] if L and isinstance(L[0], dict) and 'frag' in L[0] else None
    if spec is None or 0 not in reqs: return v
    r = reqs[0]
    out = r['done']['out']
    hdr = 5 if sc.get('framing', sc['kind']) == 'udp' else 9
    req = F.parse_req(r['sends'][0]['data']) if r['sends'] else None
    whole = F.valid_response(req, run['script'].payload_fn) if req else b''
    if req and req['kind'] == 'tcp' and spec.get('mbap'): whole = F.apply_mbap(whole, spec['mbap'])
    delay_ms = int(spec.get('delay', sc.get('timeout', 1) / 4) * 1000)
    first_ms = int(spec.get('first', 0) * 1000)
    if spec.get('second', 'exact') == 'exact' and spec['frag'] >= hdr and spec['frag'] < len(whole) and delay_ms < T and first_ms < T:
        if out[0] != 'ok' or out[1] != whole or len(r['sends']) != 1:
            v.append(('reassembly', f'frame split at {spec["frag"]} (first piece {first_ms} ms after the transmission, second piece {delay_ms} ms later): {len(r["sends"])} transmissions, outcome {out[0]} '
                                    f'{out[1].hex() if out[0] == "ok" else repr(out[1])}, expected the unsplit frame {whole.hex()} after one transmission'))
    if out[0] == 'ok':
        # whatever was delivered must be a valid answer built only from data received for the transmission that it answers
        if sc.get('framing', sc['kind']) != 'tcp' and not F.wf_response(_spec_of(req), out[1]):
            v.append(('wrong-reassembly', f'delivered {out[1].hex()} is not a checksum-correct answer'))
        if sc.get('framing', sc['kind']) != 'tcp' and spec.get('second') in ('plus', 'minus', 'corrupt') and out[1][:spec['frag']] == whole[:spec['frag']] and out[1] != whole:
            v.append(('wrong-reassembly', f'first fragment + {spec.get("second")} remainder produced the result {out[1].hex()}'))
    # a fragment of an earlier transmission must never be combined with data of a later one
    for k, r2 in reqs.items():
        o2 = r2['done']['out']
        if o2[0] == 'ok':
            ans = [x for x in tr.recvs if x['t'] <= r2['done']['t']]
            last_send = max(s['t'] for s in r2['sends'])
            pieces = [x for x in ans if x['data'] and x['data'] in o2[1] and x['t'] < last_send and len(x['data']) < len(o2[1])]
            stale = [x for x in pieces if not any(s['t'] <= x['t'] and s['tid'] == x['tid'] and s['t'] == last_send for s in r2['sends'])]
            if stale and len(r2['sends']) > 1 and o2[1] != F.valid_response(F.parse_req(r2['sends'][-1]['data']), run['script'].payload_fn):
                v.append(('stale-fragment', f'request {k}: result {o2[1].hex()} contains a fragment received at {stale[0]["t"]} ms, before the last transmission at {last_send} ms'))
    return v


def _spec_of(req):
    if req['kind'] == 'aa55': return dict(kind='aa55', op='aa55', rtype=F.AA55_RESP_TYPE.get(req['type'], req['type'] | 0x80))
    if req['fn'] == 3: return dict(kind=req['kind'], op='read', count=req['val'])
    return dict(kind=req['kind'], op='write' if req['fn'] == 6 else 'multi', reg=req['reg'], val=F.s16(req['val']) if req['fn'] == 6 else req['count'])


REASONS = {1: 'ILLEGAL FUNCTION', 2: 'ILLEGAL DATA ADDRESS', 3: 'ILLEGAL DATA VALUE', 4: 'SLAVE DEVICE FAILURE', 5: 'ACKNOWLEDGE',
           6: 'SLAVE DEVICE BUSY', 7: 'NEGATIVE ACKNOWLEDGEMENT', 8: 'MEMORY PARITY ERROR', 10: 'GATEWAY PATH UNAVAILABLE',
           11: 'GATEWAY TARGET DEVICE FAILED TO RESPOND'}


def mon_c08(run):
    v = []
    sc, tr = run['sc'], run['tracer']
    X = tr.X
    if run['hang']: return v
    reqs = per_request(run)
    L = list(sc.get('letters') or [])
    # which transmission (global index) got an exception frame
    for i, (t, raw, req, letter) in enumerate(run['script'].log):
        code = letter['exc'] if isinstance(letter, dict) and 'exc' in letter else (sc.get('exc_code', 2) if letter == 'X' else None)
        if code is None or req is None or req['kind'] == 'aa55': continue
        k = next((s['k'] for s in tr.sends if s['t'] == t and s['data'] == raw), None)
        if k is None or k not in reqs: continue
        r = reqs[k]
        out = r['done']['out']
        want = REASONS.get(code, 'UNKNOWN')
        if out[0] != 'exc' or not isinstance(out[1], X.RequestRejectedException) or out[1].message != want:
            v.append(('reason', f'exception code {code} answered to request {k}: outcome {out[0]} {out[1]!r} '
                                f'{getattr(out[1], "message", "")!r}, expected RequestRejectedException({want!r})'))
        if r['done']['t'] != t:
            v.append(('not-immediate', f'exception frame received at {t} ms, request {k} completed at {r["done"]["t"]} ms'))
        if any(k2 == k for (_, _, _, _), k2 in zip(run['script'].log[i + 1:], [s['k'] for s in tr.sends][i + 1:])):
            v.append(('retransmitted', f'request {k} was transmitted again after the exception frame at {t} ms: {[s["t"] for s in r["sends"]]}'))
    return v


def mon_c09(run):
    v = []
    tr = run['tracer']
    X = tr.X
    for t, exc, msg in tr.loop_excs:
        v.append(('loop-exception', f'exception left unhandled in an event-loop callback at {t} ms: {exc} ({msg})'))
    for d in tr.dones:
        out = d['out']
        if out[0] == 'exc' and not isinstance(out[1], X.InverterError) and out[1] is not X.MaxRetriesException:
            v.append(('foreign-exception', f'request {d["k"]} raised {type(out[1]).__name__}: {out[1]}'))
    return v


def mon_c10(run):
    v = []
    sc, tr = run['sc'], run['tracer']
    if tr.max_active > 1:
        t = next(t for t, n in tr.active_log if n > 1)
        v.append(('two-transports', f'{tr.max_active} transports open (not closing) at {t} ms'))
    if tr.max_open > 2:
        t = next(t for t, n in tr.open_log if n > 2)
        v.append(('two-transports', f'{tr.max_open} sockets open at {t} ms'))
    if run['hang']: return v
    ka = sc.get('ka', False)
    ka_ops = [op for ph in sc['phases'] for op in ph if op['op'] == 'ka']
    if not ka and not ka_ops:
        # keep-alive off: nothing stays open once a request has completed (checked when the loop goes idle / ends)
        if tr.n_open() != 0:
            v.append(('leak', f'{tr.n_open()} socket(s) still open after the last request completed (keep-alive off)'))
    last_ops = sc['phases'][-1]
    if last_ops and last_ops[-1]['op'] == 'close' and sequential_ops(last_ops) and tr.n_open() != 0:
        v.append(('leak-after-close', f'{tr.n_open()} socket(s) open after close()'))
    if ka and not ka_ops and len(sc['phases']) == 1 and sequential(run):
        # consecutive successful requests reuse the transport
        reqs = per_request(run)
        ks = sorted(reqs)
        for a, b in zip(ks, ks[1:]):
            ra, rb = reqs[a], reqs[b]
            if ra['done']['out'][0] == 'ok' and rb['done']['out'][0] == 'ok' and len(ra['sends']) == 1 and len(rb['sends']) == 1 \
                    and not any(op['op'] == 'close' and ra['op']['at'] < op.get('at', 0) < rb['op']['at'] for op in sc['phases'][0]) \
                    and ra['sends'][0]['tid'] != rb['sends'][0]['tid']:
                v.append(('not-reused', f'keep-alive on: requests {a} and {b} both succeeded at once but used transports {ra["sends"][0]["tid"]} and {rb["sends"][0]["tid"]}'))
    return v


def sequential_ops(ops):
    ats = [op.get('at', 0) for op in ops]
    return all(b - a >= 15000 for a, b in zip(ats, ats[1:]))


def mon_recover(run):
    """C10: scenarios marked 'final_polite': the last request is answered properly and must succeed"""
    v = []
    sc, tr = run['sc'], run['tracer']
    if not sc.get('final_polite') or run['hang']: return v
    reqs = per_request(run)
    if not reqs: return v
    k = max(reqs)
    if run['script'].i - len(reqs[k]['sends']) < len(sc.get('letters', '')): return v     # the script was not exhausted before it started
    if reqs[k]['done']['out'][0] != 'ok':
        v.append(('no-recovery', f'the final request {k} (answered promptly by the inverter) ended with {reqs[k]["done"]["out"]!r}'))
    return v


MONITORS = dict(C01=[], C04=[mon_c04], C05=[mon_c05], C06=[mon_c06], C07=[mon_c07], C08=[mon_c08], C09=[mon_c09],
                C10=[mon_c10, mon_recover])


def mon_c01(run):
    """delivery: whatever a request returned was accepted by its validator, and is a well-formed answer to it"""
    v = []
    tr = run['tracer']
    for d in tr.dones:
        if d['out'][0] == 'ok' and d['op']['op'] == 'req':
            sends = [s for s in tr.sends if s['k'] == d['k']]
            req = F.parse_req(sends[-1]['data']) if sends else None
            if req is None or not F.wf_response(_spec_of(req), d['out'][1]):
                v.append(('delivered-malformed', f'request {d["k"]} returned {d["out"][1].hex()} which is not a well-formed answer to {sends[-1]["data"].hex() if sends else None}'))
    return v


def mon_in_time(run):
    """scenarios marked in_time: one caller at a time; every transmission the peer answers completely and before that transmission's timeout (at once,
    late, or in two pieces that arrive in time) completes its request -- no retransmission, no failure -- and with keep-alive on consecutive such
    requests use the same transport"""
    v = []
    sc, tr = run['sc'], run['tracer']
    if not sc.get('in_time') or run['hang']: return v
    reqs = per_request(run)
    if not sequential_dyn(run, reqs): return v
    T = int(sc.get('timeout', 1) * 1000)
    sends = tr.sends
    ok_tids = []
    for i, (t, raw, req, letter) in enumerate(run['script'].log):
        in_time = letter == 'N' or (isinstance(letter, dict) and (letter.get('late', 2) < 1 or (letter.get('second') == 'exact' and letter.get('delay', 1) < 1)))
        if not in_time or req is None or i >= len(sends): continue
        k = sends[i]['k']
        if k not in reqs: continue
        r = reqs[k]
        if r['done']['out'][0] != 'ok' or len(r['sends']) != 1:
            v.append(('answered-in-time-but-not-completed', f'request {k} (transmitted at {t} ms, answered completely within its timeout of {T} ms: {letter}) ended with '
                                                            f'{r["done"]["out"][0]} {r["done"]["out"][1]!r:.60} after {len(r["sends"])} transmission(s) at {[x["t"] for x in r["sends"]]} ms'))
        else: ok_tids.append((k, r['sends'][0]['tid']))
    if sc.get('ka') and len({tid for _, tid in ok_tids}) > 1:
        v.append(('not-reused', f'keep-alive on: the requests {[k for k, _ in ok_tids]} each succeeded with one transmission but used the transports {[tid for _, tid in ok_tids]}'))
    return v


MONITORS['C10'] = MONITORS['C10'] + [mon_in_time]
MONITORS['C01'] = [mon_c01]


def mon_prompt(run):
    """a transmission that the inverter answers at once with the complete valid frame completes the request with exactly
    that frame (C02 end-to-end; also exposes fragments leaking from earlier transmissions, C07)"""
    v = []
    sc, tr = run['sc'], run['tracer']
    if run['hang']: return v
    reqs = per_request(run)
    sends = tr.sends
    for i, (t, raw, req, letter) in enumerate(run['script'].log):
        if letter != 'N' or req is None or i >= len(sends): continue
        k = sends[i]['k']
        if k not in reqs: continue
        # only when nothing else is still in flight for this transmission: no later letters for the same request
        later = [j for j in range(i + 1, len(sends)) if sends[j]['k'] == k]
        out = reqs[k]['done']['out']
        whole = F.valid_response(req, run['script'].payload_fn)
        # only when that frame is the first thing the object received after this transmission (a late datagram of an earlier
        # transmission legitimately ends the attempt: the wire protocols carry no correlation id)
        after = [x for x in tr.recvs if x['seq'] > sends[i]['seq']]
        if not after or after[0]['data'] != whole: continue
        # ... and no invalid datagram was received for this request before (its deferred handling may hit the retransmission;
        # no property constrains that)
        first = min(s['seq'] for s in sends if s['k'] == k)
        if any(x['verdict'][0] == 'refuse' and first < x['seq'] < sends[i]['seq'] for x in tr.recvs): continue
        if later or out[0] != 'ok' or out[1] != whole:
            v.append(('prompt-answer-lost', f'transmission {i} of request {k} was answered at once with the valid frame {whole.hex()} but the request '
                                            f'{"was transmitted again" if later else "ended with " + repr(out[1])[:80]}'))
    return v


def mon_c03(run):
    """every frame on the wire parses with the independent decoder; Modbus/TCP transaction ids are non-zero and change with every transmission"""
    v = []
    sc, tr = run['sc'], run['tracer']
    prev = None
    for s in tr.sends:
        req = F.parse_req(s['data'])
        if req is None:
            v.append(('unparsable-request', f'transmitted frame {s["data"].hex()} is not a well-formed request')); continue
        if req['kind'] == 'tcp':
            if req['tx'] == 0 or req['tx'] == prev:
                v.append(('tx-id', f'Modbus/TCP transmission at {s["t"]} ms carries transaction id {req["tx"]} (previous transmission: {prev}), frame {s["data"].hex()}'))
            prev = req['tx']
    return v


MONITORS['C02'] = [mon_prompt]
MONITORS['C03'] = [mon_c03]
MONITORS['C07'] = MONITORS['C07'] + [mon_prompt]

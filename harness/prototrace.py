"""Runs scenarios on the REAL goodwe protocol classes under the virtual-time loop and records
(a) the trace of loop callbacks that touch the protocol object, each with a white-box projection of the
    object's state and the observable actions it produced -- replayed by coq/Model/Proto.v check_trace;
(b) a run record (transmissions, outcomes, times, open transports) on which the property monitors
    (harness/protomon.py) are evaluated.
"""
from __future__ import annotations
import asyncio, importlib, itertools
from asyncio import events
from . import vloop as V, peer as PEER, frames as F

REASON_CODE = {'': 0, 'ILLEGAL FUNCTION': 1, 'ILLEGAL DATA ADDRESS': 2, 'ILLEGAL DATA VALUE': 3, 'SLAVE DEVICE FAILURE': 4,
               'ACKNOWLEDGE': 5, 'SLAVE DEVICE BUSY': 6, 'NEGATIVE ACKNOWLEDGEMENT': 7, 'MEMORY PARITY ERROR': 8,
               'GATEWAY PATH UNAVAILABLE': 10, 'GATEWAY TARGET DEVICE FAILED TO RESPOND': 11, 'UNKNOWN': 99}


def load():
    import goodwe.modbus as M, goodwe.exceptions as X, goodwe.protocol as P
    importlib.reload(X); importlib.reload(M); importlib.reload(P)
    return P, X


class Tracer:
    def __init__(self, proto, P, X):
        import types
        X = types.SimpleNamespace(**{n: getattr(X, n) for n in dir(X) if n.endswith('Exception') or n == 'InverterError'})   # snapshot: modules are reloaded per scenario
        self.proto, self.P, self.X = proto, P, X
        self.entries = []            # dict(tev=..., proj=[...], acts=[...], t=ms)
        self.cur = None              # TPop entry of the handle being run
        self.tasks = {}              # task object -> k
        self.transports = []         # all transports ever created (tid = index)
        self.tr_loop = {}
        self.handles = []            # timeout TimerHandles (hid = index)
        self.fired = set()
        self.io_pending = {}         # id(reader handle) -> EvIO entry
        self.chunk = 0
        self.last_iter = None
        self.loop = None
        self.verdict = None
        self.cons_conns, self.cons_sends = [], []
        self.wrap_proto()
        # run record for the monitors
        self.sends = []              # dict(t, tid, k, data)
        self.dones = []              # dict(t, k, outcome, value)
        self.recvs = []              # dict(t, tid, len, verdict)
        self.opens, self.closes = [], []
        self.loop_excs = []
        self.max_open = 0
        self.open_log = []
        self.max_active = 0
        self.active_log = []

    # ---------------------------------------------------------------- instrumentation of the instance
    def wrap_proto(self):
        p = self.proto
        for name in ('datagram_received', 'data_received', 'error_received', 'connection_lost', 'eof_received',
                     '_timeout_mechanism', 'connection_made'):
            orig = getattr(p, name, None)
            if orig is None: continue
            setattr(p, name, self._mk(name, orig))

    def _mk(self, name, orig):
        tr = self

        def w(*a, **kw):
            if name in ('datagram_received', 'data_received'):
                tr.verdict = None
                tr.rx = dict(len=len(a[0]), data=bytes(a[0]))
                try:
                    return orig(*a, **kw)
                finally:
                    tr.note_io(('data', len(a[0]), tr.verdict or ('refuse',)), bytes(a[0]))
            if name == 'eof_received':
                try: return orig(*a, **kw)
                finally: tr.note_io(('eof',), b'')
            if name == 'error_received':
                tr.sync_err = True
            return orig(*a, **kw)
        w.__name__ = name
        w._traced = name
        return w

    def wrap_command(self, cmd):
        tr, X = self, self.X
        orig = cmd.validator

        def v(data):
            try:
                r = orig(data)
            except X.PartialResponseException as ex:
                tr.verdict = ('partial', ex.expected); raise
            except X.RequestRejectedException as ex:
                tr.verdict = ('rejected', REASON_CODE.get(ex.message, 98)); raise
            tr.verdict = ('accept',) if r else ('refuse',)
            return r
        cmd.validator = v
        return cmd

    def note_io(self, io, data):
        e = self.cur
        if e is not None and e['tev'][0] == 'pop' and e['tev'][1][0] == 'read':
            if io[0] == 'data':
                # chunk identity = first chunk with the same bytes (a duplicated answer is the same token)
                same = [r['chunk'] for r in self.recvs if r['data'] == data]
                if same: cid = same[0]
                else:
                    self.chunk += 1; cid = self.chunk
            full = io if io[0] == 'eof' else ('data', cid, io[1], io[2])
            e['tev'] = ('pop', ('read', e['tev'][1][1], full))
            ev = self.io_pending.pop(e['hid'], None)
            if ev is not None: ev['tev'] = ('io', ev['tev'][1], full)
            if io[0] == 'data':
                self.seq = getattr(self, 'seq', 0) + 1
                self.recvs.append(dict(t=self.now(), tid=e['tev'][1][1], len=io[1], verdict=io[2], chunk=cid, data=data, seq=self.seq))

    def now(self):
        return round(self.loop.time() * 1000) if self.loop else 0

    # ---------------------------------------------------------------- loop hooks
    def attach(self, loop):
        self.loop = loop
        loop.tracer = self
        loop.set_task_factory(lambda lp, coro, **kw: asyncio.tasks._PyTask(coro, loop=lp, **kw))
        self.last_iter = None

    def on_call_at(self, handle):
        cb = handle._callback
        if getattr(cb, '_traced', None) == '_timeout_mechanism':
            self.handles.append(handle)

    def on_transport(self, tr, outcome):
        if tr is not None:
            self.transports.append(tr)
            self.tr_loop[id(tr)] = self.loop
            tid = len(self.transports) - 1
            self.act([1, tid]); self.opens.append(dict(t=self.now(), tid=tid))
            self.wrap_transport(tr, tid)
        self.cons_conns.append(outcome)

    def wrap_transport(self, tr, tid):
        t = self
        name = 'sendto' if hasattr(tr, 'sendto') else 'write'
        orig = getattr(tr, name)

        def send(data, *a):
            t.sync_err = False
            k = t.cur['tev'][1][1] if t.cur and t.cur['tev'][1][0] == 'task' else -1
            was = getattr(tr, '_conn_lost', 0)
            try:
                return orig(data, *a)
            finally:
                t.cons_sends.append(not t.sync_err and getattr(tr, '_conn_lost', 0) == was)
                t.seq = getattr(t, 'seq', 0) + 1
                t.act([3, tid, k]); t.sends.append(dict(t=t.now(), tid=tid, k=k, data=bytes(data), seq=t.seq))
        setattr(tr, name, send)

    def act(self, a):
        if self.cur is not None: self.cur['acts'] += a
        else: self.pending_acts = getattr(self, 'pending_acts', []) + a

    def tid_of(self, tr):
        for i, x in enumerate(self.transports):
            if x is tr: return i
        return None

    def classify(self, handle):
        cb = handle._callback
        slf = getattr(cb, '__self__', None)
        name = getattr(cb, '_traced', None) or getattr(cb, '__name__', '')
        if isinstance(slf, asyncio.tasks._PyTask):
            return ('task', self.tasks[slf]) if slf in self.tasks else None
        if name == 'connection_made' and getattr(cb, '_traced', None):
            return ('connmade', self.tid_of(handle._args[0]))
        if name == '_add_reader' and self.tid_of(slf) is not None:
            return ('addreader', self.tid_of(slf))
        if name == '_set_result_unless_cancelled':
            k = getattr(self, 'waiter_owner', {}).get(id(handle._args[0]))
            return ('waiter', k) if k is not None else None
        if name == '_read_ready' and self.tid_of(slf) is not None:
            return ('read', self.tid_of(slf), None)
        if name == '_timeout_mechanism' and getattr(cb, '_traced', None):
            if isinstance(handle, asyncio.TimerHandle):
                for i, h in enumerate(self.handles):
                    if h is handle: return ('timer', i)
                return None
            return ('soon',)
        if name == '_call_connection_lost' and self.tid_of(slf) is not None:
            return ('connlost', self.tid_of(slf))
        if name == '_do_error_received':
            return ('err', self.tid_of(handle._args[0]))
        if name == '_force_close' and self.tid_of(slf) is not None:
            return ('fatal', self.tid_of(slf))
        if name == '_on_timeout' and isinstance(handle, asyncio.TimerHandle):
            t = getattr(slf, '_task', None)
            if t in self.tasks: return ('wf', self.tasks[t])
        return None

    def before(self, handle):
        loop = self.loop
        if loop._iter_no != self.last_iter:
            self.last_iter = loop._iter_no
            for h in [handle] + list(loop._ready):
                if h._cancelled: continue
                c = self.classify(h)
                if c is None: continue
                if c[0] == 'read':
                    e = self.entry(('io', c[1], None)); self.io_pending[id(h)] = e
                elif c[0] == 'timer': self.entry(('due', c[1]))
                elif c[0] == 'wf': self.entry(('duewf', c[1]))
        c = self.classify(handle)
        if c is None:
            self.cur = None; return
        self.cur = self.entry(('pop', c), final=False)
        self.cur['hid'] = id(handle)
        self.cons_conns, self.cons_sends = [], []
        if c[0] == 'timer': self.fired.add(c[1])

    def after(self, handle):
        e = self.cur
        if e is None: return
        if e['tev'][1][0] == 'connlost':
            tid = e['tev'][1][1]
            e['acts'] += [2, tid]; self.closes.append(dict(t=self.now(), tid=tid))
        if self.cons_conns or self.cons_sends:
            i = self.entries.index(e)
            prev = self.entries[i - 1]['proj'] if i > 0 else self.proj()
            self.entries.insert(i, dict(tev=('oracle', list(self.cons_conns), list(self.cons_sends)), proj=prev, acts=[], t=e['t']))
        e['proj'] = self.proj()
        if e['tev'][1][0] == 'task':
            if not hasattr(self, 'waiter_owner'): self.waiter_owner = {}
            for h in self.loop._ready:
                if getattr(h._callback, '__name__', '') == '_set_result_unless_cancelled':
                    self.waiter_owner.setdefault(id(h._args[0]), e['tev'][1][1])
                    self.keep = getattr(self, 'keep', []) + [h._args[0]]
        self.cur = None
        n = self.n_open()
        self.max_open = max(self.max_open, n)
        self.open_log.append((self.now(), n))
        a = sum(1 for t in self.transports if t._sock is not None and not t._closing and self.tr_loop.get(id(t)) is self.loop)
        self.max_active = max(self.max_active, a)
        self.active_log.append((self.now(), a))

    def entry(self, tev, final=True):
        e = dict(tev=tev, proj=self.proj() if final else None, acts=[], t=self.now())
        self.entries.append(e)
        return e

    def n_open(self):
        return sum(1 for t in self.transports if t._sock is not None and self.tr_loop.get(id(t)) is self.loop)

    def proj(self):
        p = self.proto
        fut = p.response_future
        if fut is None: fc = 0
        elif not fut.done(): fc = 1
        elif fut.cancelled(): fc = 4
        elif fut.exception() is not None: fc = 3
        else: fc = 2
        live = sum(1 for i, h in enumerate(self.handles) if not h._cancelled and i not in self.fired and h._loop is self.loop)
        lk = p._lock
        return [p._retry, 0 if p._transport is not None else 1, 0 if p._timer is not None else 1, live, fc,
                p._partial_missing if p._partial_data else 0,
                1 if (lk is not None and lk.locked()) else 0, len(lk._waiters) if (lk is not None and lk._waiters) else 0,
                self.n_open()]

    def external(self, tev):
        """an environment event emitted by the scenario driver (EvCall, EvCloseCall, EvSetKA, EvNewLoop, EvErr, EvFatal)"""
        self.entry(tev)


# hook the loop: handle runs, call_at, endpoint creation --------------------------------------------------------
_prev_run = events.Handle._run


def _traced_run(self):
    loop = self._loop
    tr = getattr(loop, 'tracer', None)
    if tr is None or self._cancelled:
        return _prev_run(self)
    tr.before(self)
    try:
        return _prev_run(self)
    finally:
        tr.after(self)


events.Handle._run = _traced_run


class TLoop(V.VLoop):
    def __init__(self):
        super().__init__()
        self._iter_no = 0
        self.tracer = None

    def _run_once(self):
        self._iter_no += 1
        if self._iter_no > 30000:
            raise V.Hang('runaway: more than 30000 event-loop iterations without completing (endless retransmission?)')
        super()._run_once()

    def call_at(self, when, callback, *args, context=None):
        h = super().call_at(when, callback, *args, context=context)
        if self.tracer is not None: self.tracer.on_call_at(h)
        return h

    async def create_datagram_endpoint(self, protocol_factory, local_addr=None, remote_addr=None, **kw):
        n = len(self.transports)
        try:
            r = await super().create_datagram_endpoint(protocol_factory, local_addr=local_addr, remote_addr=remote_addr, **kw)
        except OSError:
            if self.tracer and len(self.transports) == n: self.tracer.on_transport(None, 'refused')
            raise
        return r

    async def create_connection(self, protocol_factory, host=None, port=None, **kw):
        outcome = self.connect_script[0] if self.connect_script else 'ok'
        if outcome != 'ok' and self.tracer is not None: self.tracer.on_transport(None, outcome)
        return await super().create_connection(protocol_factory, host=host, port=port, **kw)


def _patch_transport_creation():
    """report a transport to the tracer at the moment the selector transport object is constructed"""
    from asyncio import selector_events as SE
    for cls in (SE._SelectorDatagramTransport, SE._SelectorSocketTransport):
        if getattr(cls, '_gw_patched', False): continue
        orig = cls.__init__

        def init(self, loop, *a, __orig=orig, **kw):
            __orig(self, loop, *a, **kw)
            tr = getattr(loop, 'tracer', None)
            if tr is not None: tr.on_transport(self, 'ok')
        cls.__init__ = init
        cls._gw_patched = True


_patch_transport_creation()


# ------------------------------------------------------------------------------------------------ scenarios
def make_command(P, kind, reg, count, comm=0xf7, what='read'):
    """what: 'read' (count registers) | 'write' (single register, value = count) | 'multi' (count registers of payload)"""
    if what == 'write':
        if kind == 'udp': return P.ModbusRtuWriteCommand(comm, reg, count)
        if kind == 'tcp': return P.ModbusTcpWriteCommand(comm, reg, count)
        if kind == 'aa55': return P.Aa55WriteCommand(reg, count)
    if what == 'multi':
        payload = bytes((reg + i) & 255 for i in range(2 * count))
        if kind == 'udp': return P.ModbusRtuWriteMultiCommand(comm, reg, payload)
        if kind == 'tcp': return P.ModbusTcpWriteMultiCommand(comm, reg, payload)
        if kind == 'aa55': return P.Aa55WriteMultiCommand(reg, payload)
    if kind == 'udp': return P.ModbusRtuReadCommand(comm, reg, count)
    if kind == 'tcp': return P.ModbusTcpReadCommand(comm, reg, count)
    if kind == 'aa55': return P.Aa55ReadCommand(reg, count)
    raise ValueError(kind)


def run_scenario(sc: dict):
    """sc: kind 'udp'|'tcp', framing (default = kind; 'aa55' over udp), ka, timeout, retries, letters, default, connects,
    phases: [ [ op, ... ] ]  each phase runs on a fresh loop; op = dict(op='req', at=ms, k=int, reg=int, count=int)
                                                                  | dict(op='close', at=ms, k=int) | dict(op='ka', at=ms, value=bool)"""
    P, X = load()
    kind = sc['kind']
    T = sc.get('timeout', 1)
    proto = (P.UdpInverterProtocol if kind == 'udp' else P.TcpInverterProtocol)('192.0.2.1', 8899 if kind == 'udp' else 502,
                                                                               0xf7, T, sc.get('retries', 3))
    proto.keep_alive = bool(sc.get('ka', False))
    tr = Tracer(proto, P, X)
    # register contents served by the peer: 'tag' (register r holds r * 7 + 1), or every register the same 16-bit word given as 4 hex digits
    pay = sc.get('payload', 'tag')
    payload_fn = F.tag_payload if pay == 'tag' else (lambda reg, count, w=bytes.fromhex(pay): w * count)
    script = PEER.Script(sc.get('letters', ''), default=sc.get('default', 'N'), timeout=T, exc_code=sc.get('exc_code', 2), payload_fn=payload_fn)
    results = {}
    hang = None
    first = True
    for phase in sc['phases']:
        loop = TLoop()
        tr.attach(loop)
        loop.peer_factory = PEER.factory(script)
        loop.connect_script = list(sc.get('connects', [])) if first else []
        loop.set_exception_handler(lambda lp, ctx: (tr.loop_excs.append((tr.now(), repr(ctx.get('exception')), ctx.get('message'))), tr.act([5])))
        if not first: tr.external(('newloop',))
        first = False
        n_ops = len(phase)
        done_evt = {}

        async def caller(op):
            k = op['k']
            try:
                if op['op'] == 'req':
                    cmd = tr.wrap_command(make_command(P, sc.get('framing', kind), op.get('reg', 100 + 10 * k), op.get('count', 2), what=op.get('what', 'read')))
                    op['cmd'] = cmd
                    r = await cmd.execute(proto)
                    out = ('ok', r.raw_data)
                else:
                    await proto.close()
                    out = ('closed', None)
            except BaseException as ex:          # noqa
                out = ('exc', ex)
            results[k] = out
            code = enc_outcome(out, tr)
            tr.act(([4, k] + code) if op['op'] == 'req' else [6, k])
            tr.dones.append(dict(t=tr.now(), k=k, out=out, op=op))
            return out

        def start(op):
            if op['op'] == 'ka':
                proto.keep_alive = bool(op['value']); tr.external(('setka', bool(op['value']))); done_evt[id(op)].set_result(None); return
            t = loop.create_task(caller(op))
            tr.tasks[t] = op['k']
            tr.external(('call', op['k']) if op['op'] == 'req' else ('closecall', op['k']))
            t.add_done_callback(lambda _t: done_evt[id(op)].set_result(None) if not done_evt[id(op)].done() else None)

        async def main(lp):
            for op in phase:
                done_evt[id(op)] = lp.create_future()
                if op.get('at', 0) == 0: start(op)
                else: lp.call_later(op['at'] / 1000.0, start, op)
            await asyncio.gather(*done_evt.values())
            # let queued connection_lost callbacks run
            for _ in range(3): await asyncio.sleep(0)

        lp, out = V.run(main, loop, close=True)
        if out[0] == 'hang':
            hang = out[1]; break
        if out[0] == 'exc':
            raise out[1]
    entries = [e for e in tr.entries if not (e['tev'][0] == 'io' and e['tev'][2] is None)
               and not (e['tev'][0] == 'pop' and e['tev'][1][0] == 'read' and e['tev'][1][2] is None)]
    return dict(sc=sc, entries=entries, results=results, hang=hang, tracer=tr, script=script, proto=proto)


def enc_outcome(out, tr):
    X = tr.X
    if out[0] == 'ok':
        # which chunks make up the delivered data
        data = out[1]
        ids = []
        rest = data
        for r in tr.recvs:
            pass
        for r in reversed(tr.recvs):
            if rest.endswith(r['data']) and r['data']:
                ids.insert(0, r['chunk']); rest = rest[:len(rest) - len(r['data'])]
                if not rest: break
        return [1] + ids
    ex = out[1]
    if isinstance(ex, X.RequestRejectedException):
        return [2, REASON_CODE.get(ex.message, 98)] if ex.message else [3]
    if isinstance(ex, X.RequestFailedException): return [4]
    if isinstance(ex, X.MaxRetriesException) or ex is X.MaxRetriesException: return [5]
    return [6]


# ------------------------------------------------------------------------------------------------ Coq rendering
def coq_io(io):
    if io[0] == 'eof': return 'IoEof'
    v = io[3]
    vt = {'accept': 'VAccept', 'refuse': 'VRefuse'}.get(v[0]) or (f'(VPartial {v[1]})' if v[0] == 'partial' else f'(VRejected {v[1]})')
    return f'(IoData {io[1]} {io[2]} {vt})'


def coq_tev(tev):
    k = tev[0]
    if k == 'pop':
        c = tev[1]
        m = {'task': 'LTask', 'connmade': 'LConnMade', 'addreader': 'LAddReader', 'waiter': 'LWaiter', 'timer': 'LTimer',
             'connlost': 'LConnLost', 'err': 'LErr', 'fatal': 'LFatal', 'wf': 'LWf'}
        if c[0] == 'soon': return 'TPop LSoon'
        if c[0] == 'read': return f'TPop (LRead {c[1]} {coq_io(c[2])})'
        return f'TPop ({m[c[0]]} {c[1]})'
    if k == 'io': return f'TEv (EvIO {tev[1]} {coq_io(tev[2])})'
    if k == 'due': return f'TEv (EvDue {tev[1]})'
    if k == 'duewf': return f'TEv (EvDueWf {tev[1]})'
    if k == 'call': return f'TEv (EvCall {tev[1]})'
    if k == 'closecall': return f'TEv (EvCloseCall {tev[1]})'
    if k == 'setka': return f'TEv (EvSetKA {"true" if tev[1] else "false"})'
    if k == 'newloop': return 'TEv EvNewLoop'
    if k == 'err': return f'TEv (EvErr {tev[1]})'
    if k == 'fatal': return f'TEv (EvFatal {tev[1]})'
    if k == 'oracle':
        cm = {'ok': 'COk', 'refused': 'CRefused', 'unreach': 'CRefused', 'hang': 'CHang'}
        return 'TEv (EvOracle [' + ';'.join(cm[c] for c in tev[1]) + '] [' + ';'.join('true' if b else 'false' for b in tev[2]) + '])'
    raise ValueError(tev)


def nl(l):
    return '[' + ';'.join(str(x) for x in l) + ']'


def coq_trace(run):
    sc = run['sc']
    init = f'(init {"UDP" if sc["kind"] == "udp" else "TCP"} {"true" if sc.get("ka") else "false"} {sc.get("retries", 3)})'
    body = ';\n  '.join(f'({coq_tev(e["tev"])}, {nl(e["proj"])}, {nl(e["acts"])})' for e in run['entries'])
    return init, '[' + body + ']'

"""./check Cxx --replay <file>: re-executes a stored counter-example on the implementation (and names the model obligation)."""
from __future__ import annotations
import json, sys


def run(prop, path):
    d = json.load(open(path))
    print(f"property {d.get('property', prop)}; stage {d.get('stage')}; kind {d.get('key')}")
    print('recorded:', d.get('what'))
    if d.get('broken_obligation'): print('broken obligation:', d['broken_obligation'])
    r = d.get('replay') or {}
    if 'scenario' in r:
        from . import prototrace as T, protomon as MON
        run_ = T.run_scenario(r['scenario'])
        print('outcomes:', {k: (v[0], v[1].hex() if isinstance(v[1], bytes) else repr(v[1])) for k, v in run_['results'].items()}, 'hang:', run_['hang'])
        print('transmissions:', [(s['t'], s['k'], s['data'].hex()) for s in run_['tracer'].sends])
        bad = [(k, m) for mon in MON.MONITORS.get(prop, []) for k, m in mon(run_)]
        for k, m in bad: print('VIOLATION now:', k, m)
        print('reproduced' if bad else 'the monitors report nothing on the current tree')
        return 1 if bad else 0
    if 'frame' in r and 'command' in r:
        import goodwe.protocol as P
        args = [bytes.fromhex(a) if isinstance(a, str) and r['command'].endswith('MultiCommand') and i == len(r['args']) - 1 else a for i, a in enumerate(r.get('args', []))]
        cmd = getattr(P, r['command'])(*args)
        try: out = cmd.validator(bytes.fromhex(r['frame']))
        except Exception as ex: out = f'{type(ex).__name__}: {ex}'      # noqa
        print(f"{r['command']}{tuple(r.get('args', []))}.validator({r['frame']}) -> {out}")
        return 0
    if r.get('sensor_origin') and r.get('data'):
        import copy, goodwe, goodwe.protocol as PR
        cls, table, sid = r['sensor_origin']
        s0 = next(x for x in getattr(getattr(goodwe, cls), table) if x.id_ == sid)
        s1 = copy.copy(s0); s1.offset = 0
        if hasattr(s1, '_offsetL'): s1._offsetL = 2
        try: out = repr(s1.read(PR.ProtocolResponse(bytes.fromhex(r['data']), None)))
        except Exception as ex: out = f'{type(ex).__name__}: {ex}'      # noqa
        print(f"{type(s1).__name__} (as {cls}.{table}.{sid}, moved to offset 0).read(bytes {r['data']}) -> {out}")
        return 0
    print('stored input:', json.dumps(r, indent=1)[:4000])
    print('re-run the check to re-evaluate this input class on the current tree: ./check', prop)
    return 0

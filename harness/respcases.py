"""Commands and response frames shared by the byte-level checks C01, C02, C07 and C08."""
from __future__ import annotations
import importlib
from . import frames as F, coqrun as C


def load():
    import goodwe.modbus as M, goodwe.protocol as P
    importlib.reload(M); importlib.reload(P)
    return P, M


class Cmd:
    """one command object of the library + its independent description + the Coq term of its generated validator"""
    def __init__(self, P, cls, args, spec, coq):
        self.cls, self.args, self.spec, self.coq = cls, args, spec, coq
        self.obj = getattr(P, cls)(*args)

    def label(self):
        return f"{self.cls}{tuple(a if not isinstance(a, bytes) else a.hex() for a in self.args)}"

    def coq_validate(self, data: bytes) -> str:
        return f'enc_res enc_bool ({self.coq} {C.zl(data)})'

    def py_validate(self, data: bytes):
        return C.enc_call(lambda: self.obj.validator(data), lambda b: [1 if b is True else 0 if b is False else 77])


def commands(rng, deep):
    P, M = load()
    out = []
    addrs = [0xf7, 0x7f, 0, 255] + [rng.randrange(256) for _ in range(2 if not deep else 8)]
    counts = [1, 2, 6, 33, 125] + [rng.randrange(1, 126) for _ in range(3 if not deep else 20)]
    regs = [0, 255, 256, 35100, 47547, 0x8000, 65535] + [rng.randrange(65536) for _ in range(2 if not deep else 12)]
    vals = [0, 1, -1, 255, 256, -256, 32767, -32768, 0x1234 - 65536 * 0] + [rng.randrange(-32768, 32768) for _ in range(2 if not deep else 12)]
    for i, cnt in enumerate(counts):
        a, r = addrs[i % len(addrs)], regs[i % len(regs)]
        out.append(Cmd(P, 'ModbusRtuReadCommand', (a, r, cnt), dict(kind='rtu', op='read', count=cnt, addr=a, reg=r),
                       f'ModbusRtuReadCommand_validator {a} {r} {cnt}'))
        out.append(Cmd(P, 'ModbusTcpReadCommand', (a, r, cnt), dict(kind='tcp', op='read', count=cnt, addr=a, reg=r),
                       f'ModbusTcpReadCommand_validator {a} {r} {cnt}'))
    for i, v in enumerate(vals):
        a, r = addrs[(i + 1) % len(addrs)], regs[(i + 3) % len(regs)]
        out.append(Cmd(P, 'ModbusRtuWriteCommand', (a, r, v), dict(kind='rtu', op='write', reg=r, val=v, addr=a),
                       f'ModbusRtuWriteCommand_validator {a} {r} {C.zs(v)}'))
        out.append(Cmd(P, 'ModbusTcpWriteCommand', (a, r, v), dict(kind='tcp', op='write', reg=r, val=v, addr=a),
                       f'ModbusTcpWriteCommand_validator {a} {r} {C.zs(v)}'))
    for i, n in enumerate([2, 8, 12, 246] + [2 * rng.randrange(1, 124) for _ in range(1 if not deep else 6)]):
        a, r = addrs[i % len(addrs)], regs[(i + 2) % len(regs)]
        pl = bytes(rng.randrange(256) for _ in range(n))
        out.append(Cmd(P, 'ModbusRtuWriteMultiCommand', (a, r, pl), dict(kind='rtu', op='multi', reg=r, val=n // 2, addr=a),
                       f'ModbusRtuWriteMultiCommand_validator {a} {r} {C.zl(pl)}'))
        out.append(Cmd(P, 'ModbusTcpWriteMultiCommand', (a, r, pl), dict(kind='tcp', op='multi', reg=r, val=n // 2, addr=a),
                       f'ModbusTcpWriteMultiCommand_validator {a} {r} {C.zl(pl)}'))
    for r, cnt in ((0x701, 4), (1793, 1), (47547, 6)):
        out.append(Cmd(P, 'Aa55ReadCommand', (r, cnt), dict(kind='aa55', op='aa55', rtype=0x019A),
                       f'Aa55ReadCommand_validator {r} {cnt}'))
    out.append(Cmd(P, 'Aa55WriteCommand', (0x560, 20), dict(kind='aa55', op='aa55', rtype=0x02B9), 'Aa55WriteCommand_validator 1376 20'))
    out.append(Cmd(P, 'Aa55WriteCommand', (0x701, -1), dict(kind='aa55', op='aa55', rtype=0x02B9), 'Aa55WriteCommand_validator 1793 (-1)'))
    out.append(Cmd(P, 'Aa55WriteMultiCommand', (0x701, bytes(range(8))), dict(kind='aa55', op='aa55', rtype=0x02B9),
                   f'Aa55WriteMultiCommand_validator 1793 {C.zl(bytes(range(8)))}'))
    for payload, rt in (("010200", "0182"), ("010600", "0186"), ("010900", "0189"), ("03350203e8", "03b5"), ("03590103", "03D9"),
                        ("033601" + "00", "03B6"), ("031d00", "039d")):
        out.append(Cmd(P, 'Aa55ProtocolCommand', (payload, rt), dict(kind='aa55', op='aa55', rtype=int(rt, 16)),
                       f'Aa55ProtocolCommand_validator {C.cstr(payload)} {C.cstr(rt)} 0 0'))
    return out


def payload_variants(rng, n, deep):
    out = [bytes(n), b'\xff' * n, bytes((i * 7 + 1) & 255 for i in range(n)), bytes(rng.randrange(256) for _ in range(n)),
           bytes([0x7f, 0xff] * (n // 2 + 1))[:n]]
    if deep:
        out += [bytes(rng.randrange(256) for _ in range(n)) for _ in range(3)] + [bytes([0x80] * n), bytes([0xaa, 0x55] * (n // 2 + 1))[:n]]
    return out


# AA55 answers at the limits of the one-byte length field: no payload, one byte, and payloads whose byte sum does not fit 16 bits (the checksum wraps)
AA55_BOUNDARY_PAYLOADS = [b'', b'\x00', b'\xff', b'\xff' * 254, b'\xff' * 255, b'\xff' * 200 + b'\x00' * 55, bytes([0xfe] * 255)]


def valid_frame(cmd: Cmd, payload: bytes = None, addr=None, tx=0x0102) -> bytes:
    s = cmd.spec
    a = s.get('addr', 0xf7) if addr is None else addr
    if s['kind'] == 'rtu':
        if s['op'] == 'read': return F.rtu_read_resp(a, payload if payload is not None else F.tag_payload(s['reg'], s['count']))
        return F.rtu_write_resp(a, 6 if s['op'] == 'write' else 16, s['reg'], s['val'])
    if s['kind'] == 'tcp':
        if s['op'] == 'read': return F.tcp_read_resp(tx, a, payload if payload is not None else F.tag_payload(s['reg'], s['count']))
        return F.tcp_write_resp(tx, a, 6 if s['op'] == 'write' else 16, s['reg'], s['val'])
    return F.aa55_resp(s['rtype'], payload if payload is not None else bytes(range(40)))


def mutations(frame: bytes, rng, deep):
    """(tag, bytes): truncations, single-bit flips, byte insert/delete, garbage"""
    n = len(frame)
    out = []
    cuts = range(n) if (deep or n <= 24) else sorted(set(list(range(0, 13)) + [n - 3, n - 2, n - 1] + [rng.randrange(n) for _ in range(6)]))
    for k in cuts: out.append((f'trunc{k}', frame[:k]))
    bits = range(8 * n) if (deep and n <= 40) else sorted(set([rng.randrange(8 * n) for _ in range(24 if not deep else 96)] + list(range(16, min(8 * n, 80), 3))))
    for b in bits:
        m = bytearray(frame); m[b // 8] ^= 1 << (b % 8); out.append((f'flip{b}', bytes(m)))
    for _ in range(3 if not deep else 10):
        i = rng.randrange(n + 1)
        out.append((f'ins{i}', frame[:i] + bytes([rng.randrange(256)]) + frame[i:]))
        if n > 1:
            j = rng.randrange(n); out.append((f'del{j}', frame[:j] + frame[j + 1:]))
    for ln in ([0, 1, 4, 5, 8, 9, 10, 12, n, 270] if not deep else list(range(0, 14)) + [n, n + 1, 100, 270]):
        out.append((f'garbage{ln}', bytes(rng.randrange(256) for _ in range(ln))))
    out.append(('trailing', frame + bytes([rng.randrange(256), rng.randrange(256)])))
    return out


def translation_stage(ctx, tag, pick, Stage):
    """generated validators vs the Python validators on the frames selected by pick(cmd) -> [(tag, bytes)]"""
    st = Stage('translator-validation')
    cases, descr = [], []
    cmds = commands(ctx.rng, ctx.deep)
    for cmd in cmds:
        for t, data in pick(cmd):
            cases.append((cmd.coq_validate(data), cmd.py_validate(data)))
            descr.append((cmd.label(), t, data.hex()))
            st.case((cmd.label(), t, data))
    if cases:
        st.samples.append(dict(term=cases[0][0][:300], expected=cases[0][1]))
        st.samples.append(dict(command=descr[len(descr) // 2][0], frame=descr[len(descr) // 2][2], python=cases[len(descr) // 2][1]))
    badidx, err = C.eval_cases(tag, 'ModbusGen ProtoGen', cases)
    if err:
        st.violation('translation-eval', f'model evaluation failed: {err[:400]}', dict(error=err), no_input=True)
    for i in badidx[:10]:
        st.violation('translation-mismatch', f'generated validator and Python disagree: {descr[i][0]} on {descr[i][1]}',
                     dict(command=descr[i][0], frame=descr[i][2], python=cases[i][1]), no_input=True)
    st.stats['programs'] = len({type(c.obj).__name__ for c in cmds})
    st.stats['commands'] = len(cmds)
    return st

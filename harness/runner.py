"""Common machinery of ./check: regeneration, Coq build, assumption audit, stages, known findings,
evidence and the VIOLATION / KNOWN-FINDING protocol."""
from __future__ import annotations
import os, sys, re, json, time, subprocess, fcntl, hashlib, random, importlib, glob

ROOT = os.path.dirname(os.path.dirname(os.path.abspath(__file__)))
COQ = os.path.join(ROOT, 'coq')
REPO = os.environ.get('GOODWE_REPO', '/repo')
# seeded-change runs (tools/seedtest.sh, tools/seedall.sh) write their evidence elsewhere: evidence/ describes runs on the unchanged tree only
EVID = os.environ.get('VERIF_EVIDENCE_DIR') or os.path.join(ROOT, 'evidence')
REPLAYS = os.path.join(EVID, 'replays')
PY = '/venv/bin/python'

ALLOWED_AXIOMS = {
    # standard-library axioms a proof may depend on (none is used so far; each one that shows up is named in the evidence)
    'functional_extensionality_dep', 'FunctionalExtensionality.functional_extensionality_dep',
    'Eqdep.Eq_rect_eq.eq_rect_eq', 'Classical_Prop.classic', 'proof_irrelevance', 'JMeq_eq', 'JMeq.JMeq_eq',
}
FORBIDDEN = re.compile(r'\b(Admitted|admit|Axiom|Axioms|Parameter|Parameters|Conjecture|Hypothesis|Variable|Variables|'
                       r'Unset\s+Guard|bypass_check|Admit\s+Obligations|type-in-type|impredicative-set)\b')


class Violation:
    def __init__(self, key: str, what: str, replay: dict, no_input=False):
        self.key, self.what, self.replay, self.no_input = key, what, replay, no_input


class Stage:
    def __init__(self, name):
        self.name = name
        self.evaluations = 0
        self.distinct = set()
        self.samples = []
        self.violations: list[Violation] = []
        self.stats = {}
        self.notes = []
        self.ok = True
        self.per_key = {}

    def case(self, key, nontrivial=True, sample=None):
        self.evaluations += 1
        if nontrivial:
            self.distinct.add(hashlib.md5(repr(key).encode()).hexdigest()[:12])
        if sample is not None and len(self.samples) < 6:
            self.samples.append(sample)

    def violation(self, key, what, replay, no_input=False):
        self.ok = False
        # at most five per kind of failure -- never a global cap: a known finding must not crowd out a new kind of violation
        self.per_key[key] = self.per_key.get(key, 0) + 1
        if self.per_key[key] <= 5:
            self.violations.append(Violation(key, what, replay, no_input))

    def count(self, k, n=1):
        self.stats[k] = self.stats.get(k, 0) + n


class Ctx:
    def __init__(self, prop, tier, seed):
        self.prop, self.tier, self.seed = prop, tier, seed
        self.rng = random.Random(seed * 1000003 + int(prop[1:]))
        self.t0 = time.time()
        self.repo = REPO
        self.coq_ok = True
        self.coq_error = ''
        self.gen_error = ''
        self.deep = tier == 'thorough'     # set to True as well when a proof obligation broke (search mode)
        self.search = False

    @property
    def quick(self): return not self.deep


# ----------------------------------------------------------------------------------------------
def sh(cmd, cwd=None, timeout=3600, env=None):
    e = dict(os.environ)
    e.update(PYTHONPATH=REPO, PYTHONHASHSEED='0', GOODWE_REPO=REPO)
    if env: e.update(env)
    try:
        p = subprocess.run(cmd, cwd=cwd, capture_output=True, text=True, timeout=timeout, env=e, shell=isinstance(cmd, str))
        return p.returncode, p.stdout + p.stderr
    except subprocess.TimeoutExpired as ex:
        return 124, f'timeout after {timeout}s: {cmd}'


class Lock:
    def __enter__(self):
        os.makedirs(COQ, exist_ok=True)
        self.f = open(os.path.join(COQ, '.lock'), 'w')
        fcntl.flock(self.f, fcntl.LOCK_EX)
        return self

    def __exit__(self, *a):
        fcntl.flock(self.f, fcntl.LOCK_UN)
        self.f.close()


def regenerate():
    rc, out = sh([sys.executable if False else '/usr/bin/env', 'python3', os.path.join(ROOT, 'tools', 'gen.py')], timeout=300,
                 env={'PYTHONPATH': REPO})
    return rc, out


def make(targets, timeout=1500):
    rc, out = sh(['sh', os.path.join(COQ, 'mkproject.sh')], cwd=COQ)
    if rc != 0: return rc, out
    return sh(['make', '-j16'] + targets, cwd=COQ, timeout=timeout)


def default_targets(prop: str):
    """the compiled model files the stages of a property evaluate (besides what Props/<prop>.vo depends on): only those, so that a
    generator that refuses the current source takes down exactly the properties that rest on its output"""
    n = int(prop[1:])
    t = ['Py/CaseLib.vo']
    if n <= 3: t += ['Gen/ModbusGen.vo', 'Gen/ProtoGen.vo']
    if n <= 10: t += ['Model/Proto.vo']
    if n == 7 or n == 8: t += ['Gen/ModbusGen.vo', 'Gen/ProtoGen.vo']
    if n == 9: t += ['Model/FailCount.vo', 'Model/InvProgInst.vo']
    if n in (11, 12, 13, 16): t += ['Model/Sensors.vo', 'Gen/TablesGen.vo']
    if n == 16: t += ['Model/Settings.vo']
    if n in (14, 15): t += ['Model/ETCaps.vo', 'Gen/DTGen.vo']
    if n in (17, 19): t += ['Model/Sensors.vo', 'Model/Settings.vo', 'Gen/SettingsGen.vo']
    if n in (18, 19): t += ['Model/ModesInst.vo']
    if n == 20: t += ['Model/TwoObjInst.vo']
    return t


def coq_error_summary(out: str) -> str:
    m = re.search(r'File "([^"]+)", line (\d+), characters [\d-]+:\s*\n(Error:.*?)(?:\n\n|\nmake|\Z)', out, re.S)
    if m:
        return f'{m.group(1)}:{m.group(2)}: ' + ' '.join(m.group(3).split())[:600]
    return ' '.join(out.split())[-600:]


def failing_lemma(path_line: str) -> str:
    """name of the lemma/theorem enclosing a coqc error position"""
    m = re.match(r'\./?([^:]+):(\d+)', path_line)
    if not m: return ''
    path, line = os.path.join(COQ, m.group(1)), int(m.group(2))
    try:
        lines = open(path).read().split('\n')
    except OSError:
        return ''
    for i in range(min(line, len(lines)) - 1, -1, -1):
        mm = re.match(r'\s*(Lemma|Theorem|Corollary|Example|Definition|Fixpoint)\s+([A-Za-z0-9_\']+)', lines[i])
        if mm: return mm.group(2)
    return ''


def audit_sources():
    """no Admitted/admit/Axiom/Parameter/... anywhere in the development"""
    bad = []
    for path in glob.glob(os.path.join(COQ, '**', '*.v'), recursive=True):
        if os.sep + 'Cases' + os.sep in path: continue
        txt = open(path).read()
        txt = re.sub(r'\(\*.*?\*\)', '', txt, flags=re.S)
        inside_section = 0
        for i, line in enumerate(txt.split('\n'), 1):
            if re.match(r'\s*Section\b', line): inside_section += 1
            if re.match(r'\s*End\b', line) and inside_section: inside_section -= 1
            m = FORBIDDEN.search(line)
            if m:
                if m.group(1) in ('Variable', 'Variables', 'Hypothesis') and inside_section: continue
                bad.append(f'{os.path.relpath(path, COQ)}:{i}: {m.group(1)}')
    return bad


def assumptions(prop):
    """re-run coqc on Props/<prop>.v and parse the Print Assumptions output"""
    rc, out = sh(['coqc', '-Q', 'Py', 'GW', '-Q', 'Gen', 'GW', '-Q', 'Spec', 'GW', '-Q', 'Model', 'GW', '-Q', 'Proofs', 'GW',
                  '-Q', 'Props', 'GW', f'Props/{prop}.v'], cwd=COQ, timeout=900)
    if rc != 0:
        return None, coq_error_summary(out)
    src = open(os.path.join(COQ, 'Props', f'{prop}.v')).read()
    src_nc = re.sub(r'\(\*.*?\*\)', '', src, flags=re.S)
    theorems = re.findall(r'^\s*Theorem\s+([A-Za-z0-9_\']+)', src_nc, re.M)
    printed = re.findall(r'^\s*Print Assumptions\s+([A-Za-z0-9_\']+)\.', src_nc, re.M)
    blocks = re.split(r'(?=Closed under the global context|Axioms:)', out)
    blocks = [b for b in blocks if b.startswith('Closed') or b.startswith('Axioms:')]
    res = {}
    for name, b in zip(printed, blocks):
        if b.startswith('Closed'): res[name] = []
        else:
            names = re.findall(r'^([A-Za-z0-9_\'.]+)\s*:', b[len('Axioms:'):], re.M)
            res[name] = names
    missing = [t for t in theorems if t not in res]
    # every proof in Props must be `exact <lemma>.`
    proofs = re.findall(r'Proof\.(.*?)Qed\.', src_nc, re.S)
    # exactly one sentence, and it is `exact <term>.` (a dot inside a qualified name such as List.length is not a sentence end: that needs white space after it)
    nonexact = [p.strip() for p in proofs if not re.fullmatch(r'\s*exact\s+(?:[^.]|\.(?=\S))+\.\s*', p)]
    return dict(theorems=theorems, assumptions=res, missing=missing, nonexact=nonexact), ''


def load_known():
    p = os.path.join(ROOT, 'known_findings.json')
    if not os.path.exists(p): return []
    return json.load(open(p)).get('findings', [])


def write_replay(prop, n, data):
    os.makedirs(REPLAYS, exist_ok=True)
    path = os.path.join(REPLAYS, f'{prop}-{n}.json')
    with open(path, 'w') as f: json.dump(data, f, indent=1, default=repr)
    return os.path.relpath(path, ROOT)


def run_check(prop: str, tier: str, seed: int) -> int:
    import logging
    logging.disable(logging.CRITICAL)      # the library logs handled errors with logger.exception
    ctx = Ctx(prop, tier, seed)
    for f in glob.glob(os.path.join(REPLAYS, f'{prop}-*.json')):
        os.remove(f)
    mod = importlib.import_module(f'harness.props.{prop.lower()}')
    spec = mod.SPEC
    lines, violations, stages = [], [], []
    obligations = discharged = 0
    axioms_used = {}
    with Lock():
        # 1. regenerate the generated part of the model from the current working tree
        rc, out = regenerate()
        gen_failures = re.findall(r'^UNSUPPORTED\[(\w+)\]: (.*)$', out, re.M) if rc != 0 else []
        if rc != 0 and not gen_failures:      # the generator itself crashed
            ctx.coq_ok = False
            ctx.gen_error = ' '.join(out.split())[-600:]
        # a generated file that could not be produced is written as a file that does not compile: the build below fails for exactly
        # the properties whose theorems depend on it
        # 2. full .vo build of the property's theorems
        if ctx.coq_ok:
            rc, out = make([f'Props/{prop}.vo'] + list(spec.get('coq_targets', default_targets(prop))))
            if rc != 0:
                ctx.coq_ok = False
                ctx.coq_error = coq_error_summary(out)
                # the executable model files the stages evaluate are still wanted when a theorem no longer checks
                sh(['make', '-j16', '-k'] + list(spec.get('coq_targets', default_targets(prop))), cwd=COQ, timeout=1500)
                for name, msg in gen_failures:
                    if f'Gen/{name}.v' in out or f'GENERATION_FAILED_{name}' in out:
                        ctx.gen_error = f'{name}: {msg}'[:600]
        if ctx.coq_ok:
            info, err = assumptions(prop)
            if info is None:
                ctx.coq_ok = False; ctx.coq_error = err
            else:
                obligations = len(info['theorems'])
                for t in info['theorems']:
                    ax = info['assumptions'].get(t)
                    if ax is None: continue
                    # kernel primitives (machine integers / binary64 floats) are listed by Print Assumptions but are not axioms of ours
                    foreign = [a for a in ax if a.split('.')[-1] not in {x.split('.')[-1] for x in ALLOWED_AXIOMS}
                               and not a.startswith(('PrimFloat.', 'PrimInt63.', 'Uint63.', 'PrimInt63Notations.'))]
                    if not foreign: discharged += 1
                    if ax: axioms_used[t] = ax
                problems = []
                if info['missing']: problems.append(f"no Print Assumptions for {info['missing']}")
                if info['nonexact']: problems.append(f"proof in Props not of the form `exact lemma`: {info['nonexact'][:2]}")
                if discharged != obligations: problems.append(f"axioms outside the allowed list: {axioms_used}")
                bad = audit_sources()
                if bad: problems.append(f"forbidden declarations: {bad[:5]}")
                if problems:
                    ctx.coq_ok = False; ctx.coq_error = '; '.join(problems)
        if not ctx.coq_ok:
            ctx.search = ctx.tier != 'thorough'      # search mode entered from a quick run: medium depth where a stage offers one
            ctx.deep = True      # search mode
        # 3. correspondence / translator validation / monitors (also the counter-example search)
        for st_fn in spec['stages']:
            try:
                st = st_fn(ctx)
            except Exception as ex:     # a crashing stage is a broken check, never a silent pass
                import traceback
                st = Stage(getattr(st_fn, '__name__', 'stage'))
                st.violation('stage-crash', f'stage crashed: {type(ex).__name__}: {ex}',
                             dict(traceback=traceback.format_exc()), no_input=True)
            stages.append(st)
    # 4. verdict
    known = [k for k in load_known() if k['property'] == prop]
    known_keys = {k['key'] for k in known}
    reproduced = set()
    nrep = 0
    found_input = False
    per_key = {}
    for st in stages:
        for v in st.violations:
            if v.key in known_keys:
                reproduced.add(v.key); continue
            per_key[(st.name, v.key)] = per_key.get((st.name, v.key), 0) + 1
            if per_key[(st.name, v.key)] > 3: continue      # at most three replays per kind of failure
            nrep += 1
            path = write_replay(prop, nrep, dict(property=prop, stage=st.name, key=v.key, what=v.what, replay=v.replay,
                                                 broken_obligation=ctx.coq_error or ctx.gen_error or None))
            tail = ' no-failing-input-found' if v.no_input else ''
            lines.append(f'VIOLATION property={prop} replay={path}{tail}')
            violations.append(v)
            if not v.no_input: found_input = True
    if not ctx.coq_ok and not found_input:
        nrep += 1
        what = ctx.gen_error and f'translator refused the current source: {ctx.gen_error}' or \
            f'proof obligation no longer checks: {ctx.coq_error}'
        m = re.match(r'(\S+?:\d+):', ctx.coq_error or '')
        lemma = failing_lemma(m.group(1)) if m else ''
        path = write_replay(prop, nrep, dict(property=prop, broken_obligation=what, lemma=lemma,
                                             note='the search stages found no concrete failing input on the implementation'))
        lines.append(f'VIOLATION property={prop} replay={path} no-failing-input-found')
        violations.append(Violation('obligation', what, {}, True))
    for k in known:
        state = '' if k['key'] in reproduced or not k.get('reproducible_by_stage', True) else ' (not reproduced by this run)'
        lines.insert(0, f"KNOWN-FINDING: property={prop} {k['what']}{state}")
    # 5. evidence
    wall = time.time() - ctx.t0
    ev = evidence(ctx, spec, stages, obligations, discharged, axioms_used, len(violations), wall, known)
    os.makedirs(EVID, exist_ok=True)
    with open(os.path.join(EVID, f'{prop}.json'), 'w') as f:
        json.dump(ev, f, indent=1, default=repr)
    for l in lines: print(l)
    status = 'HOLDS' if not violations else 'VIOLATED'
    print(f'{prop} {tier}: {status}; theorems {discharged}/{obligations} checked; ' +
          '; '.join(f'{s.name}: {s.evaluations} cases' for s in stages) + f'; {wall:.1f}s')
    return 1 if violations else 0


def evidence(ctx, spec, stages, obligations, discharged, axioms_used, nviol, wall, known):
    samples = []
    for s in stages:
        for x in s.samples[:3]: samples.append({'stage': s.name, 'case': x})
    cov = {
        'obligations': obligations, 'discharged': discharged,
        'checker_cmd': f'cd coq && make -j16 Props/{ctx.prop}.vo && coqc Props/{ctx.prop}.v  (Coq 8.16.1, full .vo build, Print Assumptions parsed)',
        'trusted_base': spec.get('trusted_base', []) + [
            'Coq 8.16.1 kernel incl. vm_compute (no native_compute)',
            'tools/py2v.py + tools/gen.py (translator) and coq/Py/*.v (meaning of Python primitives), validated on every run by the translator-validation stage',
        ],
        'theorems': spec.get('theorems', []),
        'axioms_reported_by_Print_Assumptions': axioms_used or 'none (all theorems closed under the global context)',
        'evaluations': sum(s.evaluations for s in stages),
        'distinct_nontrivial': sum(len(s.distinct) for s in stages),
        'rule': spec.get('rule', ''),
        'samples': samples or [{'note': 'no sampled stage in this run'}],
        'stages': {s.name: dict(evaluations=s.evaluations, distinct_nontrivial=len(s.distinct), stats=s.stats, notes=s.notes)
                   for s in stages},
        'traces_validated_against_impl': sum(s.stats.get('traces_validated', 0) for s in stages),
        'states': sum(s.stats.get('states', 0) for s in stages),
        'transitions': sum(s.stats.get('states', 0) for s in stages),
        'proof_status': 'all obligations discharged' if ctx.coq_ok else (ctx.gen_error or ctx.coq_error),
        'known_findings': [k['key'] for k in known],
    }
    if not ctx.coq_ok or not obligations:
        # nothing was discharged in this run: do not present proof-level counts
        cov['obligations_listed'] = len(spec.get('theorems', []))
        del cov['obligations'], cov['discharged']
    if spec.get('exhaustive') and ctx.deep: cov['exhaustive'] = True
    if not cov['states']:
        del cov['states'], cov['transitions']
    return {
        'property_id': ctx.prop, 'tier': ctx.tier, 'seed': ctx.seed, 'level': spec.get('level', 'proof'),
        'coverage': cov,
        'assumptions': spec.get('assumptions', []),
        'wall_s': round(wall, 2), 'violations': nviol,
    }


def setup() -> int:
    with Lock():
        rc, out = regenerate()
        print(out.strip())
        if rc != 0: return rc
        rc, out = make([], timeout=3000)
        if rc != 0:
            print(out[-3000:])
            return rc
    print('setup: coq development built')
    return 0

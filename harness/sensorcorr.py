"""Correspondence between coq/Model/Sensors.v (+ the generated tables coq/Gen/TablesGen.v) and the real sensor classes:
(1) field sweeps: every sensor kind on ALL 65536 contents of a 2-byte field (and every field of the eco-mode / schedule
    groups over its whole range), compared through a rolling hash per 256-value chunk;
(2) table blocks: every table of ET / DT / ES decoded from boundary + random register blocks through the command that
    fetches it, every sensor's outcome compared (value, None, ValueError, any other exception)."""
from __future__ import annotations
import importlib, math, struct, datetime
from . import coqrun as C, frames as F

M60 = 1152921504606846975


def H(acc, x):
    return (acc * 31 + x + 7) & M60


def hlist(l, acc):
    acc = H(acc, len(l))
    for x in l: acc = H(acc, x)
    return acc


def load():
    for m in ('goodwe.exceptions', 'goodwe.modbus', 'goodwe.protocol', 'goodwe.inverter', 'goodwe.sensor', 'goodwe.const', 'goodwe.et', 'goodwe.es', 'goodwe.dt', 'goodwe'):
        importlib.reload(importlib.import_module(m))
    import goodwe
    return goodwe


def enc_float(x: float):
    if x != x: return [2]
    if x in (float('inf'), float('-inf')): return [1, 1 if x < 0 else 0]
    if x == 0: return [0, 1 if math.copysign(1, x) < 0 else 0]
    n, d = abs(x).as_integer_ratio()
    e = -(d.bit_length() - 1)
    while n % 2 == 0:
        n //= 2; e += 1
    return [3, 1 if x < 0 else 0, n, e]


def enc_str(s):
    return [ord(c) for c in s]


def enc_val(v):
    if v is None: return [0]
    if isinstance(v, bool): return [1, int(v)]
    if isinstance(v, int): return [1, int(v)]
    if isinstance(v, float): return [2] + enc_float(v)
    if isinstance(v, str): return [3] + enc_str(v)
    if isinstance(v, datetime.datetime): return [4, v.year, v.month, v.day, v.hour, v.minute, v.second]
    if hasattr(v, 'start_h'):
        ty = int(getattr(v, 'schedule_type', 0))
        mb = getattr(v, 'month_bits', 0) or 0
        months = getattr(v, 'months', None)
        return [5, v.start_h, v.start_m, v.end_h, v.end_m, v.power, v.on_off, v.day_bits, v.soc, mb, ty] + [len(v.days)] + enc_str(v.days) + \
               ([1] + enc_str(months) if months is not None else [0])
    return [98]


def enc_exc(ex):
    n = type(ex).__name__
    if isinstance(ex, ValueError) and n != 'UnicodeDecodeError': return [4]
    if n == 'IndexError': return [3]
    if isinstance(ex, OverflowError): return [5]
    if n == 'ZeroDivisionError': return [7]
    if n == 'TypeError': return [8]
    if n == 'NotImplementedError': return [9]
    return [99]


def run_read(sensor, resp):
    try:
        return [0] + enc_val(sensor.read(resp))
    except Exception as ex:      # noqa
        return [1] + enc_exc(ex)


# ------------------------------------------------------------------------------------------------ kinds
def coq_labels(goodwe, d):
    import goodwe.const as K
    for k, v in vars(K).items():
        if v is d: return 'L_' + k
    raise KeyError('labels')


def coq_kind(goodwe, s):
    c = type(s).__name__
    if c == 'Decimal': return f'(KDecimal {s.scale})'
    if c == 'Float': return f'(KFloat {s.scale})'
    if c in ('Enum', 'EnumH', 'EnumL', 'Enum2', 'EnumBitmap4'): return f'(K{c} {coq_labels(goodwe, s._labels)})'
    if c == 'EnumBitmap22': return f'(KEnumBitmap22 {s._offsetL} {coq_labels(goodwe, s._labels)})'
    if c in ('Schedule', 'EcoModeV2', 'PeakShavingMode'): return f'(KSchedule {int(s.schedule_type)})'
    return 'K' + c


def distinct_kinds(goodwe):
    """one representative sensor object per (class, class parameters) occurring in any table"""
    seen = {}
    for cls, names in ((goodwe.ET, ['_ET__all_sensors', '_ET__all_sensors_battery', '_ET__all_sensors_battery2', '_ET__all_sensors_meter', '_ET__all_sensors_mppt',
                                    '_ET__all_settings', '_ET__settings_arm_fw_19', '_ET__settings_arm_fw_22']),
                       (goodwe.DT, ['_DT__all_sensors', '_DT__all_sensors_meter', '_DT__all_settings', '_DT__settings_single_phase', '_DT__settings_three_phase']),
                       (goodwe.ES, ['_ES__sensors', '_ES__all_settings', '_ES__settings_arm_fw_14'])):
        for nm in names:
            for s in getattr(cls, nm):
                c = type(s).__name__
                if c in ('Calculated', 'EnumCalculated'): continue
                key = coq_kind(goodwe, s)
                if key not in seen: ORIGIN[key] = [cls.__name__, nm, s.id_]
                seen.setdefault(key, s)
    return seen


ORIGIN = {}


PRELUDE = """
Definition M60 := 1152921504606846975.
Definition Hh (acc x : Z) := Z.land (acc * 31 + x + 7) M60.
Definition hlist (l : list Z) (acc : Z) := fold_left Hh l (Hh acc (blen l)).
Definition sweep (mk : Z -> list Z) (s : sensor) (lo : Z) (n : nat) : list Z :=
  [fold_left (fun acc v => hlist (enc_rval (sensor_read (mk v) (fun a => a) s)) acc) (range_up lo n) 0].
"""


def field_sweeps(ctx, st):
    """(kind, field) sweeps over whole 16-bit (8-bit) ranges"""
    goodwe = load()
    import goodwe.protocol as PR, goodwe.sensor as S, copy
    kinds = distinct_kinds(goodwe)
    cases, descr = [], []
    seen_classes = set()
    boundary = [0, 1, 2, 15, 16, 127, 128, 129, 254, 255]
    eco_v1_ok = bytes.fromhex('0000173b0014ff7f')
    sched_ok = bytes.fromhex('0000173bff7f0014003c0000')
    for key, proto_sensor in sorted(kinds.items()):
        s = copy.copy(proto_sensor)
        s.offset = 0
        if hasattr(s, '_offsetL'): s._offsetL = 2
        c = type(s).__name__
        width = {'EcoModeV1': 8, 'Schedule': 12, 'EcoModeV2': 12, 'PeakShavingMode': 12}.get(c)
        kterm = key if not key.startswith('(KEnumBitmap22') else f'(KEnumBitmap22 2 {coq_labels(goodwe, s._labels)})'
        sterm = f'(mkS ""%string 0 {s.size_} {kterm})'
        fields = []       # (label, template, position, nbytes)
        if width:
            tmpl = eco_v1_ok if width == 8 else sched_ok
            if width == 12 and c == 'PeakShavingMode': tmpl = bytes.fromhex('0000173bfc7f0014003c0000')
            layout = [(0, 1), (1, 1), (2, 1), (3, 1), (4, 2), (6, 1), (7, 1)] if width == 8 else [(0, 1), (1, 1), (2, 1), (3, 1), (4, 1), (5, 1), (6, 2), (8, 2), (10, 2)]
            for pos, nb in layout: fields.append((f'{c}@{pos}', tmpl, pos, nb))
        elif c in ('Power4', 'Power4S', 'Energy4', 'Energy4W', 'Apparent4', 'Reactive4', 'Long', 'LongS', 'Float', 'EnumBitmap4'):
            for hi in (b'\x00\x00', b'\xff\xff', b'\x7f\xff', b'\x80\x00', b'\x44\x9a', b'\xc4\x9a', b'\x7f\x80', bytes([ctx.rng.randrange(256), ctx.rng.randrange(256)])):
                fields.append((f'{c} high {hi.hex()}', hi + b'\x00\x00', 2, 2))
            fields.append((f'{c} low 0000', b'\x00\x00\x00\x00', 0, 2))
        elif c == 'Energy8':
            for pre in (b'\x00' * 6, b'\xff' * 6, bytes(ctx.rng.randrange(256) for _ in range(6))):
                fields.append((f'{c} high {pre.hex()}', pre + b'\x00\x00', 6, 2))
        elif c == 'Timestamp':
            for pos in (0, 2, 4): fields.append((f'{c}@{pos}', bytes([24, 2, 28, 23, 59, 59]), pos, 2))
        elif c == 'EnumBitmap22':
            fields.append((f'{c} high', b'\x00\x00\x00\x00', 0, 2)); fields.append((f'{c} low', b'\x00\x01\x00\x00', 2, 2))
            fields.append((f'{c} low, high ffff', b'\xff\xff\x00\x00', 2, 2))
        else:
            fields.append((c, b'\x00\x00', 0, 2))
        first_of_class = c not in seen_classes
        seen_classes.add(c)
        for fi, (label, tmpl, pos, nb) in enumerate(fields):
            n = 256 if nb == 1 else 65536
            chunk = 256
            if nb == 1: los = [0]
            elif ctx.deep and first_of_class and (fi == 0 or width): los = list(range(0, n, chunk))
            elif first_of_class and (fi == 0 or width): los = sorted({256 * b for b in boundary} | {256 * ctx.rng.randrange(256) for _ in range(8)})
            else: los = sorted({0, 256 * 255, 256 * 127, 256 * 128} | {256 * ctx.rng.randrange(256) for _ in range(2 if not ctx.deep else 12)})
            for lo in los:
                def mk(v, tmpl=tmpl, pos=pos, nb=nb):
                    return tmpl[:pos] + (bytes([v]) if nb == 1 else bytes([v >> 8, v & 255])) + tmpl[pos + nb:]
                acc = 0
                for v in range(lo, lo + chunk):
                    acc = hlist(run_read(s, PR.ProtocolResponse(mk(v), None)), acc)
                vt = '[v]' if nb == 1 else '[v / 256; v mod 256]'
                term = f'sweep (fun v => {C.zl(tmpl[:pos])} ++ {vt} ++ {C.zl(tmpl[pos + nb:])}) {sterm} {lo} {chunk}%nat'
                cases.append((term, [acc])); descr.append((key, label, tmpl, pos, nb, lo, s))
                st.case((key, label, lo), sample=dict(kind=key, field=label, values=f'{lo}..{lo + chunk - 1}') if lo == 0 else None)
    bad, err = C.eval_cases('sens_f', 'PyFloat Sensors TablesGen', cases, shard=120, prelude=PRELUDE)
    if err:
        st.violation('sensor-eval', f'model evaluation failed: {err[:400]}', dict(error=err), no_input=True)
    # localise: evaluate the mismatching chunks value by value
    for i in bad[:6]:
        key, label, tmpl, pos, nb, lo, s = descr[i]
        terms, datas = [], []
        for v in range(lo, lo + 256):
            data = tmpl[:pos] + (bytes([v]) if nb == 1 else bytes([v >> 8, v & 255])) + tmpl[pos + nb:]
            datas.append(data)
            kterm = key if not key.startswith('(KEnumBitmap22') else f'(KEnumBitmap22 2 {coq_labels(goodwe, s._labels)})'
            terms.append(f'enc_rval (sensor_read {C.zl(data)} (fun a => a) (mkS ""%string 0 {s.size_} {kterm}))')
        res, e2 = C.eval_terms('sens_loc', 'PyFloat Sensors TablesGen', terms)
        found = False
        if res:
            for data, m in zip(datas, res):
                p = run_read(s, PR.ProtocolResponse(data, None))
                if p != m:
                    found = True
                    origin = ORIGIN.get(key)
                    rep = dict(kind=key, data=data.hex(), implementation=p, model=m, sensor_origin=origin)
                    st.violation('sensor-mismatch', f'{key} ({label}) on bytes {data.hex()}: implementation {decode_show(p)}, model {decode_show(m)}', rep, no_input=True)
                    # is this input a failing input of the property itself?  (the model's value is the documented decoding, proved total)
                    cl = classify(ctx.prop, key, p, m)
                    if cl:
                        st.violation(cl[0], f'{type(s).__name__} {origin} on response bytes {data.hex()}: {cl[1]} (implementation {decode_show(p)}, documented decoding {decode_show(m)})', rep)
                    break
        if not found:
            st.violation('sensor-mismatch', f'{key} ({label}) values {lo}..{lo + 255}: hash differs', dict(kind=key, lo=lo), no_input=True)
    st.stats['kinds'] = len(kinds)
    st.stats['field_sweeps'] = len(cases)
    return kinds


def classify(prop, key, p, m):
    """a localised model/implementation disagreement as a violation of the property under check, or None"""
    if prop == 'C11' and p and p[0] == 1 and p[1:] != [4]:
        return ('decode-raises', 'decoding raises an exception that is not ValueError')
    if prop == 'C12' and p and m and p[0] == 0 and m[0] == 0:
        return ('value-not-the-documented-reading', "the reported value is not the documented reading of the sensor's own bytes")
    if prop == 'C13' and p and m and p[0] == 0 and m[0] == 0 and key.startswith('(KEnum'):
        return ('label-differs', 'the reported label is not the table entry / bit set of the raw value')
    return None


def decode_show(e):
    if not e: return '?'
    if e[0] == 1: return {4: 'ValueError', 3: 'IndexError', 5: 'OverflowError', 9: 'NotImplementedError', 8: 'TypeError', 7: 'ZeroDivisionError'}.get(e[1], 'exception')
    v = e[1:]
    if v[0] == 0: return 'None'
    if v[0] == 1: return str(v[1])
    if v[0] == 2: return 'float ' + str(v[1:])
    if v[0] == 3: return repr(''.join(chr(c) for c in v[1:]))
    return str(v)


# ------------------------------------------------------------------------------------------------ tables
TABLES = [
    ('ET', '_ET__all_sensors', 'ET_all_sensors', (35100, 125)), ('ET', '_ET__all_sensors_battery', 'ET_all_sensors_battery', (37000, 24)),
    ('ET', '_ET__all_sensors_battery2', 'ET_all_sensors_battery2', (39000, 22)), ('ET', '_ET__all_sensors_meter', 'ET_all_sensors_meter', (36000, 125)),
    ('ET', '_ET__all_sensors_mppt', 'ET_all_sensors_mppt', (35301, 61)),
    ('DT', '_DT__all_sensors', 'DT_all_sensors', (30100, 73)), ('DT', '_DT__all_sensors_meter', 'DT_all_sensors_meter', (30195, 15)),
    ('ES', '_ES__sensors', 'ES_sensors', None), ('ES', '_ES__all_settings', 'ES_all_settings', None),
]


def blocks(rng, n, deep):
    out = [bytes(n), b'\xff' * n, (b'\x7f\xff' * n)[:n], (b'\x80\x00' * n)[:n], (b'\xff\xfe' * n)[:n], bytes((i * 37 + 11) & 255 for i in range(n)),
           (b'\x00\x01' * n)[:n], (b'\x18\x02\x1c\x17\x3b\x3b' + bytes(n))[:n]]
    out += [bytes(rng.randrange(256) for _ in range(n)) for _ in range(6 if not deep else 60)]
    out += [bytes(rng.choice([0, 0, 1, 0xff, 0x7f, 0x80, rng.randrange(256)]) for _ in range(n)) for _ in range(4 if not deep else 30)]
    out += [out[-1][: n // 2], out[0][:3], b'']      # shorter than announced (decoding never raises IndexError)
    return out


def table_blocks(ctx, st):
    goodwe = load()
    import goodwe.protocol as PR
    cases, descr = [], []
    for fam, attr, coqname, win in TABLES:
        sensors = getattr(getattr(goodwe, fam), attr)
        n = 2 * win[1] if win else 120
        for blk in blocks(ctx.rng, n, ctx.deep):
            if win:
                cmd = PR.ModbusRtuReadCommand(0xf7, win[0], win[1])
                raw = b'\xaa\x55\xf7\x03' + bytes([len(blk) & 255]) + blk + b'\x00\x00'
                pos = f'(fun a => (a - {win[0]}) * 2)'
            else:
                cmd = PR.Aa55ProtocolCommand("010600", "0186")
                raw = b'\xaa\x55\x7f\xc0\x01\x86' + bytes([len(blk) & 255]) + blk + b'\x00\x00'
                pos = '(fun a => a)'
            resp = PR.ProtocolResponse(raw, cmd)
            exp = []
            for s in sensors:
                r = run_read(s, resp)
                exp += [len(r)] + r
            term = f'flat_map (fun s => let r := enc_rval (sensor_read {C.zl(blk)} {pos} s) in blen r :: r) {coqname}'
            cases.append((term, exp)); descr.append((fam, attr, coqname, win, blk, sensors, pos))
            st.case((attr, blk), sample=dict(table=attr, block=blk.hex()[:80], bytes=len(blk)) if len(st.samples) < 4 else None)
    bad, err = C.eval_cases('sens_t', 'PyFloat Sensors TablesGen', cases, shard=40)
    if err:
        st.violation('sensor-eval', f'model evaluation failed: {err[:400]}', dict(error=err), no_input=True)
    for i in bad[:6]:
        fam, attr, coqname, win, blk, sensors, pos = descr[i]
        res, e2 = C.eval_terms('sens_tl', 'PyFloat Sensors TablesGen', [cases[i][0]])
        msg = f'table {attr} on block {blk.hex()[:60]}..'
        if res:
            m, e = res[0], cases[i][1]
            j = k = 0
            for s in sensors:
                if j >= len(m) or k >= len(e): break
                lm, le = m[j], e[k]
                if m[j:j + lm + 1] != e[k:k + le + 1]:
                    msg += f': sensor {s.id_}: implementation {decode_show(e[k + 1:k + le + 1])}, model {decode_show(m[j + 1:j + lm + 1])}'
                    break
                j += lm + 1; k += le + 1
        st.violation('table-mismatch', 'model and implementation disagree on ' + msg, dict(table=attr, block=blk.hex()), no_input=True)
    st.stats['tables'] = len(TABLES)


# ------------------------------------------------------------------------------------------------ encoders (C17 / C19)
def encoder_corr(ctx, st):
    """encode_value of every setting class and the eco-mode group encoders: model vs the real classes"""
    goodwe = load()
    import goodwe.sensor as S
    cases, descr = [], []
    rng = ctx.rng

    def enc_bytes(fn):
        try: return [0] + list(fn())
        except Exception as ex: return [1] + enc_exc(ex)      # noqa

    ints = [-70000, -32769, -32768, -129, -128, -1, 0, 1, 127, 128, 255, 256, 32767, 32768, 65534, 65535, 65536, 2 ** 31, 2 ** 32 - 1, 2 ** 32] + [rng.randrange(-70000, 70000) for _ in range(10)]
    for cls, kind in ((S.Integer, 'KInteger'), (S.IntegerS, 'KIntegerS'), (S.Long, 'KLong'), (S.LongS, 'KLongS')):
        s = cls('x', 0, 'x')
        for v in ints:
            cases.append((f'enc_rbytes (encode_value {kind} (IInt {C.zs(v)}) [])', enc_bytes(lambda: s.encode_value(v)))); descr.append((kind, v)); st.case((kind, v))
    for cls, kind in ((S.ByteH, 'KByteH'), (S.ByteL, 'KByteL')):
        s = cls('x', 0, 'x')
        for v in list(range(-130, 131, 1 if ctx.deep else 13)) + [-128, 127, -129, 128]:
            reg = bytes([rng.randrange(256), rng.randrange(256)])
            cases.append((f'enc_rbytes (encode_value {kind} (IInt {C.zs(v)}) {C.zl(reg)})', enc_bytes(lambda: s.encode_value(v, reg)))); descr.append((kind, v)); st.case((kind, v))
    scaled = [(S.Voltage('x', 0, 'x', None), 'KVoltage', 10), (S.Current('x', 0, 'x', None), 'KCurrent', 10), (S.CurrentS('x', 0, 'x', None), 'KCurrentS', 10),
              (S.Decimal('x', 0, 10, 'x'), '(KDecimal 10)', 10), (S.Decimal('x', 0, 100, 'x'), '(KDecimal 100)', 100), (S.Decimal('x', 0, 1000, 'x'), '(KDecimal 1000)', 1000)]
    for s, kind, sc in scaled:
        ks = [-32769, -32768, -1, 0, 1, 29, 56, 57, 58, 4584, 32767, 32768, 65535, 65536] + [rng.randrange(-33000, 66000) for _ in range(40 if not ctx.deep else 2000)]
        for k in ks:
            v = k / sc
            cases.append((f'enc_rbytes (encode_value {kind} (IFloat (PrimFloat.div (float_of_Z {C.zs(k)}) (float_of_Z {sc}))) [])', enc_bytes(lambda: s.encode_value(v))))
            descr.append((kind, v)); st.case((kind, k))
    # eco-mode group encoders
    for ty in (0, 3, 6, 85, 1):
        sch = S.Schedule('x', 0, 'x', S.ScheduleType(ty))
        for p in ([1, 9, 10, 37, 50, 99, 100] if not ctx.deep else range(0, 101)):
            for soc in ((0, 80, 100) if not ctx.deep else range(0, 101, 5)):
                cases.append((f'sched_encode_charge {ty} {p} {soc}', list(sch.encode_charge(p, soc)))); descr.append(('charge', ty, p, soc)); st.case(('charge', ty, p, soc))
            cases.append((f'sched_encode_discharge {ty} {p}', list(sch.encode_discharge(p)))); descr.append(('discharge', ty, p)); st.case(('discharge', ty, p))
    v1 = S.EcoModeV1('x', 0, 'x')
    for p in range(0, 101, 1 if ctx.deep else 7):
        cases.append((f'eco_v1_encode_charge {p}', list(v1.encode_charge(p)))); descr.append(('v1c', p)); st.case(('v1c', p))
        cases.append((f'eco_v1_encode_discharge {p}', list(v1.encode_discharge(p)))); descr.append(('v1d', p)); st.case(('v1d', p))
    bad, err = C.eval_cases('sens_e', 'PyFloat Sensors', cases, shard=400, prelude='From Coq Require Import PrimFloat.')
    if err: st.violation('sensor-eval', f'model evaluation failed: {err[:400]}', dict(error=err), no_input=True)
    for i in bad[:6]:
        st.violation('encoder-mismatch', f'encoder of the model and of the implementation disagree on {descr[i]}: implementation {cases[i][1]}',
                     dict(case=repr(descr[i]), implementation=cases[i][1]), no_input=True)

"""Simulated inverter: a Modbus register file (ET, DT, ES eco-mode v2) and the AA55 blocks of the ES family, with refusal
ranges (ILLEGAL DATA ADDRESS), a write log and an independent request decoder (harness/frames.py).  The real inverter
classes talk to it through a subclass that overrides _read_from_socket, exactly as the repository's own tests do."""
from __future__ import annotations
import importlib, random
from . import frames as F


class Sim:
    def __init__(self, seed=0, fill=None, refuse=(), family='ET'):
        self.rng = random.Random(seed)
        self.fill = fill            # None: pseudo random per address; int: constant word
        self.regs = {}
        self.refuse = list(refuse)  # (lo, hi) inclusive register ranges answered with ILLEGAL DATA ADDRESS
        self.log = []               # dict(kind, fn, reg, count|val|payload, raw)
        self.family = family
        # AA55 blocks (ES)
        self.info = bytearray(80)
        self.runtime = bytearray(150)
        self.settings = bytearray(90)
        self.fail_next = 0          # number of following requests that fail with RequestFailedException
        self.lose = set()           # absolute request ordinals (index in self.log) that get no answer
        self.silent = []            # (lo, hi) inclusive register ranges whose requests get no answer at all
        self.reject_write = None    # dict(n=k, code=c): the k-th write request from now on (1-based) is answered with Modbus exception c, nothing stored
        self.salt = self.rng.randrange(65536)

    # ---- register file
    def word(self, a):
        if a in self.regs: return self.regs[a]
        if self.fill is not None: return self.fill
        return ((a * 40503 + 7919 + self.salt) ^ ((a >> 3) * 97)) & 0xFFFF

    def set(self, a, w): self.regs[a] = w & 0xFFFF

    def set_bytes(self, a, data: bytes):
        if len(data) % 2: data = data + b'\x00'
        for i in range(0, len(data), 2): self.set(a + i // 2, data[i] * 256 + data[i + 1])

    def get_bytes(self, a, nregs) -> bytes:
        out = bytearray()
        for r in range(a, a + nregs):
            w = self.word(r); out += bytes([w >> 8, w & 255])
        return bytes(out)

    def set_ascii(self, a, text: str, nbytes: int):
        self.set_bytes(a, text.encode('ascii').ljust(nbytes, b' ')[:nbytes])

    def refused(self, a, n):
        return any(lo <= r <= hi for r in range(a, a + n) for lo, hi in self.refuse)

    # ---- requests
    def handle(self, raw: bytes):
        """-> ('ok', response bytes) | ('exc', code) | ('fail',)"""
        req = F.parse_req(raw)
        if req is None:
            self.log.append(dict(kind='?', raw=raw)); return ('fail',)
        if self.fail_next > 0 or len(self.log) in self.lose or (req.get('reg') is not None and req['kind'] != 'aa55' and any(lo <= req['reg'] <= hi for lo, hi in self.silent)):
            if self.fail_next > 0: self.fail_next -= 1
            self.log.append(dict(kind=req['kind'], fn=req.get('fn', req.get('type')), reg=req.get('reg'), count=req.get('val'), raw=raw, lost=True))
            return ('fail',)
        if req['kind'] == 'aa55': return self.handle_aa55(req, raw)
        k, fn, reg = req['kind'], req['fn'], req['reg']
        if fn == 3:
            cnt = req['val']
            self.log.append(dict(kind=k, fn=3, reg=reg, count=cnt, raw=raw))
            if self.refused(reg, cnt): return ('exc', 2)
            return ('ok', F.valid_response(req, lambda r, c: self.get_bytes(r, c)))
        if fn in (6, 16) and self.reject_write is not None:
            self.reject_write['n'] -= 1
            if self.reject_write['n'] == 0:
                code = self.reject_write['code']; self.reject_write = None
                self.log.append(dict(kind=k, fn=fn, reg=reg, val=req.get('val'), count=req.get('count'), payload=req.get('payload'), raw=raw, rejected=code))
                return ('exc', code)
        if fn == 6:
            self.log.append(dict(kind=k, fn=6, reg=reg, val=req['val'], raw=raw))
            if self.refused(reg, 1): return ('exc', 2)
            self.set(reg, req['val'])
            return ('ok', F.valid_response(req))
        if fn == 16:
            self.log.append(dict(kind=k, fn=16, reg=reg, count=req['count'], payload=req['payload'], raw=raw))
            if self.refused(reg, req['count']): return ('exc', 2)
            self.set_bytes(reg, req['payload'])
            return ('ok', F.valid_response(req))
        return ('exc', 1)

    def handle_aa55(self, req, raw):
        t, p = req['type'], req['payload']
        self.log.append(dict(kind='aa55', fn=t, payload=p, raw=raw))
        if t == 0x0102: return ('ok', F.aa55_resp(0x0182, bytes(self.info)))
        if t == 0x0106: return ('ok', F.aa55_resp(0x0186, bytes(self.runtime)))
        if t == 0x0109: return ('ok', F.aa55_resp(0x0189, bytes(self.settings)))
        if t == 0x011A:
            reg, cnt = p[0] * 256 + p[1], p[2]
            return ('ok', F.aa55_resp(0x019A, self.get_bytes(reg, cnt)))
        if t == 0x0239:
            reg, n = p[0] * 256 + p[1], p[2]
            data = p[3:]
            if n == 1: self.set(reg, data[0] * 256 + data[1])
            else: self.set_bytes(reg, data)
            if reg == 0x560: self.settings[32:34] = data[0:2]          # depth of discharge: settings byte 32 (block at Modbus 0x550)
            return ('ok', F.aa55_resp(0x02B9, b'\x06'))
        if t >> 8 == 0x03:
            sub = t & 0xFF
            if sub == 0x59: self.settings[66:68] = bytes([0, p[0]])      # work mode
            if sub == 0x35: self.settings[52:54] = p[0:2]                # export limit
            ack = {0x36: 0x03B6, 0x26: 0x03B6, 0x27: 0x03B7}.get(sub, t | 0x80)
            return ('ok', F.aa55_resp(ack, b'\x06'))
        return ('fail',)

    def writes(self):
        return [e for e in self.log if (e.get('kind') in ('rtu', 'tcp') and e.get('fn') in (6, 16)) or
                (e.get('kind') == 'aa55' and (e['fn'] == 0x0239 or e['fn'] >> 8 == 0x03))]

    def reads(self):
        return [e for e in self.log if e not in self.writes()]


def reload_goodwe():
    for m in ('goodwe.exceptions', 'goodwe.modbus', 'goodwe.protocol', 'goodwe.inverter', 'goodwe.sensor', 'goodwe.const', 'goodwe.model',
              'goodwe.et', 'goodwe.es', 'goodwe.dt', 'goodwe'):
        importlib.reload(importlib.import_module(m))
    import goodwe
    return goodwe


def attach(inv, sim: Sim):
    """route the inverter object's requests to the simulator"""
    import goodwe.exceptions as X, goodwe.protocol as PR, goodwe.modbus as M

    async def _read_from_socket(command):
        r = sim.handle(command.request)
        if r[0] == 'exc':
            raise X.RequestRejectedException(M.FAILURE_CODES.get(r[1], 'UNKNOWN'))
        if r[0] == 'fail':
            inv._consecutive_failures_count += 1
            raise X.RequestFailedException('no answer', inv._consecutive_failures_count)
        try:
            ok = command.validator(r[1])
        except X.RequestRejectedException as ex:
            raise
        if not ok:
            raise X.RequestFailedException('invalid answer', 1)
        inv._consecutive_failures_count = 0
        return PR.ProtocolResponse(r[1], command)
    inv._read_from_socket = _read_from_socket
    inv._sim = sim
    return inv


# ------------------------------------------------------------------------------------------------ end to end: the real protocol classes
# Objects created while e2e mode is on keep their own _read_from_socket: their requests travel through Udp/TcpInverterProtocol on a virtual-time loop
# (harness/vloop.py) to a peer that answers from the object's simulator (answer / Modbus exception frame / silence), found by the object's host.
E2E = {'on': False, 'sims': {}, 'n': 0}


class e2e:
    def __enter__(self): E2E['on'] = True; return self
    def __exit__(self, *a): E2E['on'] = False; E2E['sims'].clear()


def e2e_host(sim: Sim) -> str:
    E2E['n'] += 1
    host = f'10.{(E2E["n"] >> 16) & 255}.{(E2E["n"] >> 8) & 255}.{E2E["n"] & 255}'
    E2E['sims'][host] = sim
    return host


def run_e2e(coro):
    from . import vloop as V, peer as PEER

    class SimPeer(PEER.Peer):
        def __init__(self, loop, sock, kind, remote):
            super().__init__(loop, sock, kind, remote, PEER.Script('', default='N', timeout=1))
            self.sim = E2E['sims'][remote[0]]

        def handle(self, raw):
            req = F.parse_req(raw)
            r = self.sim.handle(raw)
            if r[0] == 'ok': self._send(r[1])
            elif r[0] == 'exc' and req is not None and req['kind'] != 'aa55': self._send(F.exception_response(req, r[1]))
            # 'fail': the request is lost, nothing is sent
    loop = V.VLoop()
    loop.peer_factory = SimPeer

    async def main(lp):
        return await coro
    if E2E.get('connect_script'): loop.connect_script = list(E2E.pop('connect_script'))      # outcomes of the TCP connection attempts of this call
    lp, out = V.run(main, loop)
    E2E['open_after_return'] = getattr(lp, 'open_after_return', None)
    if out[0] == 'ok': return out[1]
    if out[0] == 'exc': raise out[1]
    raise RuntimeError('the call never returns: ' + str(out[1])[:200])


def et_identity(sim: Sim, serial='9010KETU123W0001', model='GW10K-ET', rated=10000, arm_fw=19):
    sim.set(35000, 1); sim.set(35001, rated); sim.set(35002, 1)
    sim.set_ascii(35003, serial, 16); sim.set_ascii(35011, model, 10)
    sim.set(35016, 4); sim.set(35017, 4); sim.set(35018, 100); sim.set(35019, arm_fw); sim.set(35020, 200)
    sim.set_ascii(35021, '04029-04-S11', 12); sim.set_ascii(35027, '02041-19-S00', 12)
    # a valid timestamp in the running data
    sim.set_bytes(35100, bytes([24, 2, 28, 12, 30, 15]))


def dt_identity(sim: Sim, serial='9010KDTU123W0001', model='GW10KN-DT'):
    sim.set_ascii(30004, serial, 16); sim.set_ascii(30012, model, 10)
    for a in (30034, 30035, 30036, 30037, 30038): sim.set(a, 3)
    sim.set_bytes(30100, bytes([24, 2, 28, 12, 30, 15]))


def es_identity(sim: Sim, serial='95048ESU123W0001', model='GW5048D-ES', firmware='2314E', arm='02041-14-S00'):
    sim.info[0:5] = firmware.encode('ascii').ljust(5)[:5]
    sim.info[5:15] = model.encode('ascii').ljust(10)[:10]
    sim.info[31:47] = serial.encode('ascii').ljust(16)[:16]
    sim.info[51:63] = arm.encode('ascii').ljust(12)[:12]

"""Deterministic execution of the real goodwe protocol classes: a virtual-time asyncio loop with real
selector transports over AF_UNIX socketpairs and scripted peers living in the same loop.

Everything CPython's asyncio does (handle scheduling, transports, Lock, wait_for) is CPython's own
code; only time, the selector's blocking behaviour and the two endpoint factories are replaced.
"""
from __future__ import annotations
import asyncio, selectors, socket, errno, heapq
from asyncio import events


class Hang(Exception):
    """nothing ready, nothing scheduled, but the main coroutine is not complete"""


class VSelector(selectors.DefaultSelector):
    loop = None

    def select(self, timeout=None):
        ev = super().select(0)
        self.loop._iter_io = list(ev)
        if ev:
            return ev
        if timeout is None:
            raise Hang("event loop would block forever: nothing ready, nothing scheduled")
        if timeout > 0:
            self.loop._vtime += timeout
        return []


def _label(handle) -> str:
    cb = handle._callback
    name = getattr(cb, '__qualname__', None) or type(cb).__name__
    if name in ('TaskStepMethWrapper', 'TaskWakeupMethWrapper'):
        return name
    return name.split('.')[-1]


class _OptSock:
    def __init__(self): self.opts = []
    def setsockopt(self, *a): self.opts.append(a)
    def ioctl(self, *a): self.opts.append(a)


class VLoop(asyncio.SelectorEventLoop):
    """Virtual clock in integer milliseconds kept as float seconds (exact for the grids used)."""

    def __init__(self):
        sel = VSelector()
        super().__init__(sel)
        sel.loop = self
        self._vtime = 0.0
        self._clock_resolution = 1e-9
        self.peer_factory = None          # (loop, sock, kind, remote) -> peer object with on_readable()
        self.connect_script = []          # outcomes for successive TCP connects: 'ok' | 'refused' | 'unreach' | 'hang'
        self.dgram_connect_script = []    # outcomes for successive UDP endpoint creations: 'ok' | 'unreach'
        self.peers = []
        self.transports = []              # every transport ever created (for leak accounting)
        self.steps = []                   # (vtime, label) of every handle run
        self.on_step = None               # callback(label, handle) after each handle
        self.loop_exceptions = []
        self.set_exception_handler(self._exc_handler)
        self._iter_io = []

    def _exc_handler(self, loop, context):
        self.loop_exceptions.append((self._vtime, context.get('message'), repr(context.get('exception'))))

    def time(self):
        return self._vtime

    # ---- endpoints --------------------------------------------------------------------------
    async def create_datagram_endpoint(self, protocol_factory, local_addr=None, remote_addr=None, **kw):
        outcome = self.dgram_connect_script.pop(0) if self.dgram_connect_script else 'ok'
        if outcome == 'unreach':
            raise OSError(errno.ENETUNREACH, 'Network is unreachable')
        a, b = socket.socketpair(socket.AF_UNIX, socket.SOCK_DGRAM)
        a.setblocking(False); b.setblocking(False)
        peer = self.peer_factory(self, b, 'udp', remote_addr)
        self.peers.append(peer)
        if not peer.closed:
            self.add_reader(b, peer.on_readable)
        tr, pr = await super().create_datagram_endpoint(protocol_factory, sock=a)
        tr._extra['peername'] = remote_addr      # else sendto(data, None) -> TypeError on an unnamed socket
        peer.transport = tr
        self.transports.append(tr)
        return tr, pr

    async def create_connection(self, protocol_factory, host=None, port=None, **kw):
        outcome = self.connect_script.pop(0) if self.connect_script else 'ok'
        if outcome == 'refused':
            raise ConnectionRefusedError(errno.ECONNREFUSED, 'Connect call failed')
        if outcome == 'unreach':
            raise OSError(errno.EHOSTUNREACH, 'No route to host')
        if outcome == 'hang':
            await self.create_future()        # never completes: only wait_for's timeout ends it
        a, b = socket.socketpair(socket.AF_UNIX, socket.SOCK_STREAM)
        a.setblocking(False); b.setblocking(False)
        peer = self.peer_factory(self, b, 'tcp', (host, port))
        self.peers.append(peer)
        if not peer.closed:
            self.add_reader(b, peer.on_readable)
        tr, pr = await super().create_connection(protocol_factory, sock=a)
        tr._extra['socket'] = _OptSock()         # TCP keep-alive options do not exist on AF_UNIX sockets
        peer.transport = tr
        self.transports.append(tr)
        return tr, pr

    def open_transports(self):
        return [t for t in self.transports if t._sock is not None and not t.is_closing()]

    def unclosed_sockets(self):
        return [t for t in self.transports if t._sock is not None]


_orig_run = events.Handle._run


def _patched_run(self):
    loop = self._loop
    if isinstance(loop, VLoop) and not self._cancelled:
        lab = _label(self)
        loop.steps.append((round(loop._vtime * 1000), lab))
        _orig_run(self)
        if loop.on_step is not None:
            loop.on_step(lab, self)
    else:
        _orig_run(self)


events.Handle._run = _patched_run


def run(coro_factory, loop: VLoop | None = None, close=True):
    """Run one coroutine to completion on a VLoop.  Returns (loop, outcome) where outcome is
    ('ok', value) | ('exc', exception) | ('hang', message)."""
    loop = loop or VLoop()
    asyncio.set_event_loop(loop)
    try:
        try:
            v = loop.run_until_complete(coro_factory(loop))
            out = ('ok', v)
        except Hang as ex:
            out = ('hang', str(ex))
        except BaseException as ex:        # noqa: the caller classifies it
            out = ('exc', ex)
        loop.open_at_return = len(loop.open_transports())      # transports open (not closing) at the moment the coroutine returned
        loop.run_until_complete(asyncio.sleep(0)) if out[0] != 'hang' and not loop.is_closed() else None
        loop.open_after_return = len(loop.open_transports())   # ... and one loop iteration later
        return loop, out
    finally:
        asyncio.set_event_loop(None)
        if close:
            try:
                # give pending connection_lost callbacks a chance, then close
                loop._selector.loop = loop
                if not loop.is_closed() and out[0] != 'hang':
                    loop.run_until_complete(asyncio.sleep(0))
            except BaseException:
                pass
            for p in loop.peers:
                p.shutdown()
            if not loop.is_closed():
                loop.close()

#!/usr/bin/env python3
"""Static call graph of the inverter classes (C18): per method of ET / DT / ES (with the inherited Inverter methods) the
methods it calls on self and the kinds of protocol commands it constructs or references directly.  Emits coq/Gen/CallGen.v.
Fail-closed on command constructions it cannot classify."""
from __future__ import annotations
import ast, os, sys

REPO = os.environ.get('GOODWE_REPO', '/repo')


class Unsupported(Exception):
    pass


def fail(node, msg):
    raise Unsupported(f"callgraph: {msg}: {ast.unparse(node)[:160]}")


READ_CTORS = {'_read_command', 'Aa55ReadCommand', 'ModbusRtuReadCommand', 'ModbusTcpReadCommand'}
WRITE_CTORS = {'_write_command', '_write_multi_command', 'Aa55WriteCommand', 'Aa55WriteMultiCommand', 'ModbusRtuWriteCommand',
               'ModbusRtuWriteMultiCommand', 'ModbusTcpWriteCommand', 'ModbusTcpWriteMultiCommand'}


def literal_prefix(e):
    if isinstance(e, ast.Constant) and isinstance(e.value, str): return e.value
    if isinstance(e, ast.JoinedStr) and e.values and isinstance(e.values[0], ast.Constant): return e.values[0].value
    if isinstance(e, ast.BinOp) and isinstance(e.op, ast.Add): return literal_prefix(e.left)
    return None


def classify_call(c):
    """-> 'R' | 'W' | 'G' (generic low level command supplied by the caller) | None"""
    f = c.func
    name = f.id if isinstance(f, ast.Name) else (f.attr if isinstance(f, ast.Attribute) else None)
    if name in READ_CTORS: return 'R'
    if name in WRITE_CTORS: return 'W'
    if name == 'Aa55ProtocolCommand':
        p = literal_prefix(c.args[0]) if c.args else None
        if p is None or len(p) < 2: fail(c, 'AA55 command without a literal payload prefix')
        if p[:2].lower() == '01': return 'R'
        if p[:2].lower() in ('02', '03'): return 'W'
        fail(c, 'unknown AA55 command class')
    if name == 'ProtocolCommand': return 'G'
    return None


def load(fname):
    tree = ast.parse(open(os.path.join(REPO, 'goodwe', fname)).read(), fname)
    return {c.name: c for c in tree.body if isinstance(c, ast.ClassDef)}, tree


def methods_of(cls_node):
    return {n.name: n for n in cls_node.body if isinstance(n, (ast.FunctionDef, ast.AsyncFunctionDef))}


def analyse(cls_name, fname):
    classes, tree = load(fname)
    base_classes, _ = load('inverter.py')
    meths = dict(methods_of(base_classes['Inverter']))
    meths.update(methods_of(classes[cls_name]))
    # class-level command constants (ES) and constants assigned in __init__ (ET, DT): name -> kind
    consts = {}
    for n in classes[cls_name].body:
        if isinstance(n, (ast.Assign, ast.AnnAssign)):
            tgt = n.targets[0] if isinstance(n, ast.Assign) else n.target
            if isinstance(tgt, ast.Name) and isinstance(n.value, ast.Call):
                k = classify_call(n.value)
                if k: consts[tgt.id] = k
    init = meths.get('__init__')
    if init:
        for n in ast.walk(init):
            if isinstance(n, (ast.Assign, ast.AnnAssign)):
                tgt = n.targets[0] if isinstance(n, ast.Assign) else n.target
                if isinstance(tgt, ast.Attribute) and isinstance(tgt.value, ast.Name) and tgt.value.id == 'self' and isinstance(n.value, ast.Call):
                    k = classify_call(n.value)
                    if k: consts[tgt.attr] = k
    graph = {}
    for name, fn in meths.items():
        calls, kinds = set(), set()
        for n in ast.walk(fn):
            if isinstance(n, ast.Call):
                k = classify_call(n)
                if k: kinds.add(k)
                f = n.func
                if isinstance(f, ast.Attribute) and isinstance(f.value, ast.Name) and f.value.id == 'self' and f.attr in meths:
                    calls.add(f.attr)
            if isinstance(n, ast.Attribute) and isinstance(n.value, ast.Name) and n.value.id == 'self' and n.attr in consts and name != '__init__':
                kinds.add(consts[n.attr])
            if isinstance(n, ast.Call) and isinstance(n.func, ast.Name) and n.func.id in ('getattr', 'eval', 'exec'):
                fail(n, 'dynamic dispatch')
        graph[name] = (sorted(calls), sorted(kinds))
    return graph


FACTORIES = []


def check_factories():
    """the command factories must be what their names say: Inverter._read_command & co. delegate to the protocol object's factory of
    the same kind, and the protocol factories return a freshly constructed command of that kind (no caches, no dispatch)"""
    inv, _ = load('inverter.py')
    want = {'_read_command': 'read_command', '_write_command': 'write_command', '_write_multi_command': 'write_multi_command'}
    meths = methods_of(inv['Inverter'])
    for name, target in want.items():
        fn = meths.get(name)
        if fn is None: raise Unsupported(f'callgraph: Inverter.{name} is missing')
        body = [n for n in fn.body if not (isinstance(n, ast.Expr) and isinstance(n.value, ast.Constant))]
        argnames = [a.arg for a in fn.args.args[1:]]
        ok = (len(body) == 1 and isinstance(body[0], ast.Return) and isinstance(body[0].value, ast.Call)
              and ast.unparse(body[0].value.func) == f'self._protocol.{target}'
              and [ast.unparse(a) for a in body[0].value.args] == argnames and not body[0].value.keywords)
        if not ok: fail(fn, f'Inverter.{name} is not a plain delegation to self._protocol.{target}')
    prot, _ = load('protocol.py')
    FACTORIES.clear()
    table = {'UdpInverterProtocol': {'read_command': 'ModbusRtuReadCommand', 'write_command': 'ModbusRtuWriteCommand', 'write_multi_command': 'ModbusRtuWriteMultiCommand'},
             'TcpInverterProtocol': {'read_command': 'ModbusTcpReadCommand', 'write_command': 'ModbusTcpWriteCommand', 'write_multi_command': 'ModbusTcpWriteMultiCommand'}}
    for cls, m in table.items():
        meths = methods_of(prot[cls])
        for name, ctor in m.items():
            fn = meths.get(name)
            if fn is None: raise Unsupported(f'callgraph: {cls}.{name} is missing')
            body = [n for n in fn.body if not (isinstance(n, ast.Expr) and isinstance(n.value, ast.Constant))]
            argnames = [a.arg for a in fn.args.args[1:]]
            ok = (len(body) == 1 and isinstance(body[0], ast.Return) and isinstance(body[0].value, ast.Call)
                  and ast.unparse(body[0].value.func) == ctor
                  and [ast.unparse(a) for a in body[0].value.args] == ['self._comm_addr'] + argnames and not body[0].value.keywords)
            if not ok: fail(fn, f'{cls}.{name} is not `return {ctor}(self._comm_addr, ...)`')
            FACTORIES.append((cls, name, ctor))
    # the command classes: the function code in the request is the one of their kind
    fcodes = {'ModbusRtuReadCommand': 'create_modbus_rtu_request', 'ModbusTcpReadCommand': 'create_modbus_tcp_request',
              'ModbusRtuWriteCommand': 'create_modbus_rtu_request', 'ModbusTcpWriteCommand': 'create_modbus_tcp_request',
              'ModbusRtuWriteMultiCommand': 'create_modbus_rtu_multi_request', 'ModbusTcpWriteMultiCommand': 'create_modbus_tcp_multi_request'}
    cmds = {'ModbusRtuReadCommand': 'MODBUS_READ_CMD', 'ModbusTcpReadCommand': 'MODBUS_READ_CMD', 'ModbusRtuWriteCommand': 'MODBUS_WRITE_CMD',
            'ModbusTcpWriteCommand': 'MODBUS_WRITE_CMD', 'ModbusRtuWriteMultiCommand': 'MODBUS_WRITE_MULTI_CMD', 'ModbusTcpWriteMultiCommand': 'MODBUS_WRITE_MULTI_CMD'}
    for cls, builder in fcodes.items():
        init = methods_of(prot[cls]).get('__init__')
        if init is None: raise Unsupported(f'callgraph: {cls}.__init__ is missing')
        calls = [n for n in ast.walk(init) if isinstance(n, ast.Call) and isinstance(n.func, ast.Name) and n.func.id == builder]
        if len(calls) != 1 or len(calls[0].args) < 2 or ast.unparse(calls[0].args[1]) != cmds[cls]:
            fail(init, f'{cls} does not build its request with {builder}(comm_addr, {cmds[cls]}, ...)')


def cstr(s): return '"' + s + '"%string'


def generate():
    out = ["(* GENERATED by tools/callgraph.py from goodwe/{inverter,et,dt,es}.py -- do not edit. *)",
           "From Coq Require Import List String.", "Import ListNotations.", "",
           "Inductive ckind := CkRead | CkWrite | CkGeneric.", ""]
    km = {'R': 'CkRead', 'W': 'CkWrite', 'G': 'CkGeneric'}
    check_factories()
    # emitted only when the check above passed (otherwise this file is not produced): Inverter._read_command & co. delegate to the protocol object's
    # factory, which returns `<Command class of its transport and kind>(self._comm_addr, <the arguments>)` -- a new object per call, no cache
    out.append("Definition command_factories : list (string * string * string) :=\n  [" + ";\n   ".join(
        f'({cstr(c)}, {cstr(m)}, {cstr(k)})' for c, m, k in FACTORIES) + "].\n")
    for cls, fname in (('ET', 'et.py'), ('DT', 'dt.py'), ('ES', 'es.py')):
        g = analyse(cls, fname)
        rows = [f'  ({cstr(m)}, ([' + '; '.join(cstr(c) for c in calls) + '], [' + '; '.join(km[k] for k in kinds) + ']))' for m, (calls, kinds) in sorted(g.items())]
        out.append(f'Definition {cls}_graph : list (string * (list string * list ckind)) := [\n' + ';\n'.join(rows) + '\n].\n')
    # entry points of goodwe/__init__.py: connect / discover construct inverters and call these methods
    tree = ast.parse(open(os.path.join(REPO, 'goodwe', '__init__.py')).read())
    for fn in tree.body:
        if isinstance(fn, ast.AsyncFunctionDef) and fn.name in ('connect', 'discover', 'search_inverters'):
            calls, kinds = set(), set()
            for n in ast.walk(fn):
                if isinstance(n, ast.Call):
                    k = classify_call(n)
                    if k: kinds.add(k)
                    if isinstance(n.func, ast.Attribute) and n.func.attr in ('read_device_info', 'read_runtime_data', 'execute'):
                        calls.add(n.func.attr)
                    if isinstance(n.func, ast.Attribute) and n.func.attr.startswith(('write_', 'set_')): fail(n, 'entry point calls a setter')
                if isinstance(n, ast.Name) and n.id == 'DISCOVERY_COMMAND': kinds.add('R')
            out.append(f'Definition entry_{fn.name} : list string * list ckind := ([' + '; '.join(cstr(c) for c in sorted(calls)) + '], [' + '; '.join(km[k] for k in sorted(kinds)) + ']).')
    # DISCOVERY_COMMAND must be a read
    for n in tree.body:
        if isinstance(n, ast.Assign) and isinstance(n.targets[0], ast.Name) and n.targets[0].id == 'DISCOVERY_COMMAND':
            if classify_call(n.value) != 'R': fail(n, 'DISCOVERY_COMMAND is not a read command')
    return '\n'.join(out) + '\n'


if __name__ == '__main__':
    try:
        sys.stdout.write(generate())
    except Unsupported as ex:
        print('UNSUPPORTED:', ex); sys.exit(3)

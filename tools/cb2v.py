#!/usr/bin/env python3
"""Translates the synchronous methods of goodwe/protocol.py (event-loop callbacks and their helpers) into the statement language of
coq/Model/Callbacks.v -> coq/Gen/CallbackGen.v.  Fail-closed: every statement and condition must be one of the known primitive forms
(an attribute assignment, a Future / TimerHandle / transport call, a log call) or if / try-except over them; anything else aborts."""
from __future__ import annotations
import ast, os, sys

REPO = os.environ.get('GOODWE_REPO', '/repo')


class Unsupported(Exception):
    pass


def fail(node, msg):
    raise Unsupported(f"cb2v: {msg}: {ast.unparse(node)[:160]} (line {getattr(node, 'lineno', '?')})")


STMTS = {
    'self._timer.cancel()': 'STimerCancel',
    'self._timer = None': 'STimerNone',
    'self._timer = asyncio.get_running_loop().call_later(self.timeout, self._timeout_mechanism)': 'STimerArm',
    'asyncio.get_running_loop().call_soon(self._timeout_mechanism)': 'SCallSoonTimeout',
    'self._transport = transport': 'SSetTransport',
    'self._transport.close()': 'STransportClose',
    'self._transport = None': 'STransportNone',
    'self.response_future.set_result(data)': 'SFutSetResult',
    'self.response_future.set_exception(exc)': '(SFutSetException StArg)',
    'self.response_future.set_exception(ex)': '(SFutSetException StCaught)',
    'self.response_future.set_exception(RequestRejectedException())': '(SFutSetException StRejectedEmpty)',
    'self.response_future.set_exception(MaxRetriesException)': '(SFutSetException StMaxRetries)',
    'self.response_future.cancel()': 'SFutCancel',
    'self.response_future = asyncio.get_running_loop().create_future()': 'SFutNew',
    'self._retry = 0': 'SRetryZero',
    'data = self._partial_data + data': 'SPartialJoin',
    'self._partial_data = None': 'SPartialDataNone',
    'self._partial_missing = 0': 'SPartialMissingZero',
    'self._partial_data = data': 'SPartialStoreData',
    'self._partial_missing = ex.expected - ex.length': 'SPartialStoreMissing',
    'self.command = command': 'SSetCommand',
    'self.response_future = response_future': 'SSetFuture',
    'payload = command.request_bytes()': 'SPass',
    'self._transport.sendto(payload)': 'SSend',
    'self._transport.write(payload)': 'SSend',
    'self._close_transport()': '(SCall MCloseTransport)',
    'return self.response_future': 'SReturn',
    'pass': 'SPass',
}
EXPRS = {
    'self._timer': 'ETimer', 'self._transport': 'ETransport', 'self.response_future': 'EFut', 'self.response_future.done()': 'EFutDone',
    'self._partial_data and self._partial_missing == len(data)': 'EPartialMatch', 'self.command.validator(data)': 'EValidator',
}
LOGONLY = {'self._retry > 0', 'exc'}
HANDLERS = {'PartialResponseException': 'KPartial', 'asyncio.InvalidStateError': 'KInvalidState', 'RequestRejectedException': 'KRejected',
            'RuntimeError': 'KRuntimeError'}


def is_log(node):
    return (isinstance(node, ast.Expr) and isinstance(node.value, ast.Call) and isinstance(node.value.func, ast.Attribute)
            and isinstance(node.value.func.value, ast.Name) and node.value.func.value.id == 'logger')


def expr(e):
    src = ast.unparse(e)
    if src in EXPRS: return EXPRS[src]
    if isinstance(e, ast.UnaryOp) and isinstance(e.op, ast.Not): return f'(ENot {expr(e.operand)})'
    if isinstance(e, ast.BoolOp) and isinstance(e.op, ast.And):
        out = expr(e.values[-1])
        for v in reversed(e.values[:-1]): out = f'(EAnd {expr(v)} {out})'
        return out
    fail(e, 'condition not understood')


def block(stmts):
    out = []
    for n in stmts:
        if isinstance(n, ast.Expr) and isinstance(n.value, ast.Constant): continue      # docstring
        out.append(stmt(n))
    return '[' + '; '.join(out) + ']'


def log_only(stmts):
    return all(is_log(n) or isinstance(n, ast.Pass) or (isinstance(n, ast.Expr) and isinstance(n.value, ast.Constant)) for n in stmts)


def stmt(n):
    if is_log(n): return 'SPass'
    src = ast.unparse(n)
    if src in STMTS: return STMTS[src]
    if isinstance(n, ast.If):
        csrc = ast.unparse(n.test)
        if csrc in LOGONLY:
            if not (log_only(n.body) and log_only(n.orelse)): fail(n, 'a condition treated as log-only guards more than log calls')
            return f'(SIf ELogOnly {block(n.body)} {block(n.orelse)})'
        return f'(SIf {expr(n.test)} {block(n.body)} {block(n.orelse)})'
    if isinstance(n, ast.Try):
        if n.finalbody or n.orelse: fail(n, 'try with else/finally')
        hs = []
        for h in n.handlers:
            t = ast.unparse(h.type) if h.type is not None else None
            if t not in HANDLERS: fail(h, 'exception class not understood')
            if h.name not in (None, 'ex'): fail(h, 'handler variable must be ex')
            hs.append(f'({HANDLERS[t]}, {block(h.body)})')
        return f'(STry {block(n.body)} [' + '; '.join(hs) + '])'
    fail(n, 'statement not understood')


METHODS = [   # (class, method, Coq name, parameters besides self)
    ('InverterProtocol', '_close_transport', 'cb_close_transport', []),
    ('InverterProtocol', '_max_retries_reached', 'cb_max_retries_reached', []),
    ('UdpInverterProtocol', 'connection_made', 'udp_connection_made', ['transport']),
    ('UdpInverterProtocol', 'connection_lost', 'udp_connection_lost', ['exc']),
    ('UdpInverterProtocol', 'datagram_received', 'udp_datagram_received', ['data', 'addr']),
    ('UdpInverterProtocol', 'error_received', 'udp_error_received', ['exc']),
    ('UdpInverterProtocol', '_send_request', 'udp_send_request_sync', ['command', 'response_future']),
    ('UdpInverterProtocol', '_timeout_mechanism', 'udp_timeout_mechanism', []),
    ('TcpInverterProtocol', 'connection_made', 'tcp_connection_made', ['transport']),
    ('TcpInverterProtocol', 'eof_received', 'tcp_eof_received', []),
    ('TcpInverterProtocol', 'connection_lost', 'tcp_connection_lost', ['exc']),
    ('TcpInverterProtocol', 'data_received', 'tcp_data_received', ['data']),
    ('TcpInverterProtocol', 'error_received', 'tcp_error_received', ['exc']),
    ('TcpInverterProtocol', '_send_request', 'tcp_send_request_sync', ['command', 'response_future']),
    ('TcpInverterProtocol', '_timeout_mechanism', 'tcp_timeout_mechanism', []),
]


def generate():
    tree = ast.parse(open(os.path.join(REPO, 'goodwe', 'protocol.py')).read(), 'protocol.py')
    classes = {c.name: c for c in tree.body if isinstance(c, ast.ClassDef)}
    out = ["(* GENERATED by tools/cb2v.py from goodwe/protocol.py -- do not edit.  Regenerated on every check run. *)",
           "From Coq Require Import List.", "From GW Require Import Proto Callbacks.", "Import ListNotations.", ""]
    for cls, name, coqname, params in METHODS:
        if cls not in classes: raise Unsupported(f'cb2v: class {cls} is missing')
        fns = [n for n in classes[cls].body if isinstance(n, ast.FunctionDef) and n.name == name]
        if len(fns) != 1: raise Unsupported(f'cb2v: {cls}.{name} is missing, asynchronous or defined twice')
        fn = fns[0]
        if fn.decorator_list: fail(fn, 'decorated method')
        got = [a.arg for a in fn.args.args]
        if got != ['self'] + params or fn.args.vararg or fn.args.kwarg or fn.args.kwonlyargs:
            fail(fn, f'parameters of {cls}.{name} changed (expected {params})')
        out.append(f'(* {cls}.{name} *)')
        out.append(f'Definition {coqname} : list stmt :=\n  {block(fn.body)}.\n')
    # the attributes these methods may touch must not be rebound elsewhere in a way the model does not know: every assignment to
    # self._timer / self._transport / self.response_future / self.command / self._partial_* in the three classes is inside a listed
    # method, a constructor or a coroutine modelled by hand (send_request, _connect, close, _ensure_lock)
    allowed = {m for _, m, _, _ in METHODS} | {'__init__', 'send_request', '_connect', 'close', '_ensure_lock'}
    watched = {'_timer', '_transport', 'response_future', 'command', '_partial_data', '_partial_missing', '_retry', '_lock', '_running_loop', 'keep_alive', 'protocol'}
    ctor_only = {'_host', '_port', '_comm_addr', 'timeout', 'retries'}
    for cls in ('InverterProtocol', 'UdpInverterProtocol', 'TcpInverterProtocol'):
        for fn in classes[cls].body:
            if not isinstance(fn, (ast.FunctionDef, ast.AsyncFunctionDef)): continue
            for n in ast.walk(fn):
                tgts = []
                if isinstance(n, ast.Assign): tgts = n.targets
                elif isinstance(n, (ast.AugAssign, ast.AnnAssign)): tgts = [n.target]
                for t in tgts:
                    for e in ([t] if not isinstance(t, ast.Tuple) else t.elts):
                        if isinstance(e, ast.Attribute) and isinstance(e.value, ast.Name) and e.value.id == 'self':
                            if e.attr in ctor_only and fn.name == '__init__': continue
                            if e.attr not in watched: fail(n, f'{cls}.{fn.name} assigns an attribute the model does not know (self.{e.attr})')
                            if fn.name not in allowed: fail(n, f'{cls}.{fn.name} (not a modelled method) assigns self.{e.attr}')
    return '\n'.join(out) + '\n'


if __name__ == '__main__':
    try:
        sys.stdout.write(generate())
    except Unsupported as ex:
        print('UNSUPPORTED:', ex); sys.exit(3)

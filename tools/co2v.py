#!/usr/bin/env python3
"""Translates the COROUTINES of goodwe/protocol.py that the protocol model transcribes by hand (send_request of both transport classes,
ProtocolCommand.execute, close, _ensure_lock, _connect) into `shapes` (coq/Model/Coroutines.v): the skeleton of each coroutine (acquire; try: connect,
create future, _send_request, await, return; except clauses with `if self._retry < self.retries: ...; return await self.send_request(command)`
/ `return self._max_retries_reached()`; finally) is CHECKED here against the one the model assumes (fail-closed), and the CONTENTS of the clauses
-- which exception classes, which steps in which order, whether the connect is wrapped in wait_for -- are emitted as data (Gen/CoroutineGen.v)
from which Proofs/CoroutineRefine.v re-derives the model's functions."""
from __future__ import annotations
import ast, os, sys

REPO = os.environ.get('GOODWE_REPO', '/repo')


class Unsupported(Exception):
    pass


def fail(node, msg):
    raise Unsupported(f"co2v: {msg}: {ast.unparse(node)[:200]} (line {getattr(node, 'lineno', '?')})")


def is_log(n):
    return (isinstance(n, ast.Expr) and isinstance(n.value, ast.Call) and isinstance(n.value.func, ast.Attribute)
            and isinstance(n.value.func.value, ast.Name) and n.value.func.value.id == 'logger')


def nodoc(body):
    return [n for n in body if not (isinstance(n, ast.Expr) and isinstance(n.value, ast.Constant))]


STEPS = {
    'self._retry += 1': 'FIncRetry',
    'if self._lock and self._lock.locked():\n    self._lock.release()': 'FReleaseIfLocked',
    'self._close_transport()': 'FCloseTransport',
    'if not self.keep_alive:\n    self._close_transport()': 'FCloseIfNotKA',
    'protocol._retry = 0': 'FRetryZero',
    'if not protocol.keep_alive:\n    await protocol.close()': 'FAwaitCloseIfNotKA',
    'self._lock = asyncio.Lock()': 'FNewLock',
    'self._running_loop = asyncio.get_event_loop()': 'FSetLoop',
}


def step(n):
    if is_log(n): return 'FLog'
    src = ast.unparse(n)
    if src in STEPS: return STEPS[src]
    if isinstance(n, ast.If) and not n.orelse and all(is_log(x) for x in n.body) and ast.unparse(n.test) in ('self._timer',):
        return 'FLog'
    fail(n, 'step not understood')


def steps(ns):
    return '[' + '; '.join(step(n) for n in ns) + ']'


EXN = {'asyncio.CancelledError': 'XcCancelled', 'ConnectionRefusedError': 'XcConnectionRefused', 'TimeoutError': 'XcTimeout', 'OSError': 'XcOSError',
       'asyncio.TimeoutError': 'XcTimeout'}


def exn_classes(t):
    if t is None: fail(t, 'bare except')
    elts = t.elts if isinstance(t, ast.Tuple) else [t]
    out = []
    for e in elts:
        s = ast.unparse(e)
        if s not in EXN: fail(e, 'exception class not understood')
        if EXN[s] not in out: out.append(EXN[s])
    return '[' + '; '.join(out) + ']'


def send_request_shape(cls, fn):
    if not isinstance(fn, ast.AsyncFunctionDef) or [a.arg for a in fn.args.args] != ['self', 'command']: fail(fn, 'send_request signature')
    body = nodoc(fn.body)
    if len(body) != 2 or ast.unparse(body[0]) != 'await self._ensure_lock().acquire()' or not isinstance(body[1], ast.Try):
        fail(fn, 'send_request is not `await self._ensure_lock().acquire(); try: ...`')
    tr = body[1]
    if tr.orelse: fail(tr, 'try ... else')
    tb = [ast.unparse(n) for n in nodoc(tr.body)]
    plain = ['await self._connect()', 'response_future = asyncio.get_running_loop().create_future()', 'self._send_request(command, response_future)',
             'await response_future', 'return response_future']
    wf = ['await asyncio.wait_for(self._connect(), timeout=5)'] + plain[1:]
    if tb == plain: wait_for = 'false'
    elif tb == wf: wait_for = 'true'
    else: fail(tr, 'the try body of send_request is not connect / create_future / _send_request / await / return')
    clauses = []
    for h in tr.handlers:
        if h.name is not None: fail(h, 'handler binds a name')
        hb = nodoc(h.body)
        if len(hb) != 2 or not isinstance(hb[0], ast.If) or ast.unparse(hb[0].test) != 'self._retry < self.retries' or hb[0].orelse \
                or ast.unparse(hb[1]) != 'return self._max_retries_reached()':
            fail(h, 'handler is not `if self._retry < self.retries: ...` followed by `return self._max_retries_reached()`')
        inner = nodoc(hb[0].body)
        if not inner or ast.unparse(inner[-1]) != 'return await self.send_request(command)': fail(h, 'the retry branch does not end with the recursive call')
        clauses.append(f'({exn_classes(h.type)}, {steps(inner[:-1])})')
    return (f'Definition {cls}_send_request : sr_shape :=\n  mkSr {wait_for}\n    [' + ';\n     '.join(clauses) + f']\n    {steps(nodoc(tr.finalbody))}.\n')


def execute_shape(fn):
    if not isinstance(fn, ast.AsyncFunctionDef) or [a.arg for a in fn.args.args] != ['self', 'protocol']: fail(fn, 'execute signature')
    body = nodoc(fn.body)
    if len(body) != 1 or not isinstance(body[0], ast.Try) or body[0].orelse: fail(fn, 'execute is not a single try statement')
    tr = body[0]
    tb = nodoc(tr.body)
    want = ['response_future = await protocol.send_request(self)', 'result = response_future.result()']
    if [ast.unparse(n) for n in tb[:2]] != want: fail(tr, 'execute does not start with send_request / result()')
    if len(tb) != 4 or not isinstance(tb[2], ast.If) or ast.unparse(tb[2].test) != 'result is not None' or tb[2].orelse \
            or ast.unparse(tb[2].body[0]) != 'return ProtocolResponse(result, self)' or not isinstance(tb[3], ast.Raise) \
            or not ast.unparse(tb[3].exc).startswith('RequestFailedException('):
        fail(tr, 'execute does not return ProtocolResponse(result, self) / raise RequestFailedException')
    if len(tr.handlers) != 1: fail(tr, 'execute has not exactly one except clause')
    h = tr.handlers[0]
    hb = nodoc(h.body)
    if len(hb) != 1 or not isinstance(hb[0], ast.Raise) or not ast.unparse(hb[0].exc).startswith('RequestFailedException('):
        fail(h, 'the except clause of execute does not raise RequestFailedException')
    return f'Definition execute_shape : ex_shape := mkEx {exn_classes(h.type)} {steps(nodoc(tr.finalbody))}.\n'


def close_shape(cls, fn):
    body = nodoc(fn.body)
    if not isinstance(fn, ast.AsyncFunctionDef): fail(fn, 'close is not a coroutine')
    if len(body) == 1 and ast.unparse(body[0]) == 'self._close_transport()':
        return f'Definition {cls}_close : cl_shape := mkCl false [FCloseTransport] [].\n'
    if len(body) == 2 and ast.unparse(body[0]) == 'await self._ensure_lock().acquire()' and isinstance(body[1], ast.Try) and not body[1].handlers and not body[1].orelse:
        return f'Definition {cls}_close : cl_shape := mkCl true {steps(nodoc(body[1].body))} {steps(nodoc(body[1].finalbody))}.\n'
    fail(fn, 'close not understood')


def ensure_lock_shape(fn):
    body = nodoc(fn.body)
    if len(body) < 2 or not isinstance(body[0], ast.If) or ast.unparse(body[0].test) != 'self._lock and self._running_loop == asyncio.get_event_loop()' \
            or [ast.unparse(n) for n in body[0].body] != ['return self._lock'] or body[0].orelse or ast.unparse(body[-1]) != 'return self._lock':
        fail(fn, '_ensure_lock not understood')
    return f'Definition ensure_lock_steps : list fstep := {steps(body[1:-1])}.\n'


def connect_check(cls, fn, endpoint):
    body = nodoc(fn.body)
    if not isinstance(fn, ast.AsyncFunctionDef) or len(body) != 1 or not isinstance(body[0], ast.If) or body[0].orelse \
            or ast.unparse(body[0].test) != 'not self._transport or self._transport.is_closing()':
        fail(fn, f'{cls}._connect is not `if not self._transport or self._transport.is_closing(): ...`')
    inner = [n for n in nodoc(body[0].body) if not is_log(n)]
    if not inner or not isinstance(inner[0], ast.Assign) or ast.unparse(inner[0].targets[0]) != '(self._transport, self.protocol)' \
            or not ast.unparse(inner[0].value).startswith(f'await asyncio.get_running_loop().{endpoint}('):
        fail(fn, f'{cls}._connect does not assign (self._transport, self.protocol) from {endpoint}')
    for n in inner[1:]:
        # socket options only: nothing that touches the protocol object's attributes
        for x in ast.walk(n):
            if isinstance(x, (ast.Assign, ast.AugAssign)) and 'self.' in ast.unparse(x.targets[0] if isinstance(x, ast.Assign) else x.target):
                fail(x, f'{cls}._connect assigns an attribute after the connection was made')
            if isinstance(x, ast.Await): fail(x, f'{cls}._connect awaits after the connection was made')


def generate():
    tree = ast.parse(open(os.path.join(REPO, 'goodwe', 'protocol.py')).read(), 'protocol.py')
    classes = {c.name: c for c in tree.body if isinstance(c, ast.ClassDef)}

    def meth(cls, name):
        fns = [n for n in classes[cls].body if isinstance(n, (ast.FunctionDef, ast.AsyncFunctionDef)) and n.name == name]
        if len(fns) != 1: raise Unsupported(f'co2v: {cls}.{name} is missing or defined twice')
        if fns[0].decorator_list: fail(fns[0], 'decorated')
        return fns[0]
    out = ["(* GENERATED by tools/co2v.py from goodwe/protocol.py -- do not edit.  Regenerated on every check run. *)",
           "From Coq Require Import List.", "From GW Require Import Proto Coroutines.", "Import ListNotations.", ""]
    out.append(send_request_shape('udp', meth('UdpInverterProtocol', 'send_request')))
    out.append(send_request_shape('tcp', meth('TcpInverterProtocol', 'send_request')))
    out.append(execute_shape(meth('ProtocolCommand', 'execute')))
    out.append(close_shape('udp', meth('UdpInverterProtocol', 'close')))
    out.append(close_shape('tcp', meth('TcpInverterProtocol', 'close')))
    out.append(ensure_lock_shape(meth('InverterProtocol', '_ensure_lock')))
    connect_check('UdpInverterProtocol', meth('UdpInverterProtocol', '_connect'), 'create_datagram_endpoint')
    connect_check('TcpInverterProtocol', meth('TcpInverterProtocol', '_connect'), 'create_connection')
    # no subclass of ProtocolCommand overrides execute
    for c in classes.values():
        if c.name != 'ProtocolCommand' and any(isinstance(n, (ast.FunctionDef, ast.AsyncFunctionDef)) and n.name == 'execute' for n in c.body):
            raise Unsupported(f'co2v: {c.name} overrides execute')
    return '\n'.join(out) + '\n'


if __name__ == '__main__':
    try:
        sys.stdout.write(generate())
    except Unsupported as ex:
        print('UNSUPPORTED:', ex); sys.exit(3)

#!/bin/sh
# usage: tools/confirm_seed.sh <worktree> <seed dir> -> prints CONFIRMED / REJECTED <why>; the worktree is left clean
wt=$1; sd=$2
cd "$wt" || exit 2
git checkout -q -- . 
r0=$(PYTHONPATH=$wt PYTHONHASHSEED=0 timeout 120 /venv/bin/python "$sd/demo.py" >/tmp/confirm_demo0.$$ 2>&1; echo $?)
git apply "$sd/patch.diff" || { echo "REJECTED patch does not apply"; exit 1; }
tests=$(timeout 600 /venv/bin/python -m pytest -q -p no:cacheprovider tests 2>&1 | tail -1)
r1=$(PYTHONPATH=$wt PYTHONHASHSEED=0 timeout 120 /venv/bin/python "$sd/demo.py" >/tmp/confirm_demo1.$$ 2>&1; echo $?)
files=$(git diff --name-only | tr '\n' ' ')
git checkout -q -- .
rm -f /tmp/confirm_demo0.$$ /tmp/confirm_demo1.$$
case "$tests" in *"115 passed"*) ;; *) echo "REJECTED tests: $tests"; exit 1;; esac
[ "$r0" = 0 ] || { echo "REJECTED demo fails on clean tree (rc $r0)"; exit 1; }
[ "$r1" = 1 ] || { echo "REJECTED demo does not fail with the change (rc $r1)"; exit 1; }
echo "CONFIRMED tests='$tests' demo clean rc=$r0 changed rc=$r1 files=$files"

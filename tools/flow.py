#!/usr/bin/env python3
"""Argument plumbing of the entry points (C05): for every place where goodwe/__init__.py constructs an inverter or a
protocol object, follow the constructor chain  ET/ES/DT.__init__ -> Inverter.__init__ -> _create_protocol ->
Udp/TcpInverterProtocol.__init__ -> InverterProtocol.__init__  symbolically and emit, as Gallina functions of the
entry point's own parameters, what ends up in the protocol object's `timeout` and `retries` fields.
Fail-closed: any construct outside the handled patterns (re-binding of a parameter, computed arguments, *args ...) aborts."""
from __future__ import annotations
import ast, os, sys, copy

REPO = os.environ.get('GOODWE_REPO', '/repo')


class Unsupported(Exception):
    pass


def fail(node, msg):
    raise Unsupported(f"flow: {msg} at line {getattr(node, 'lineno', '?')}: {ast.unparse(node)[:120] if isinstance(node, ast.AST) else node}")


def load_classes():
    classes = {}
    for f in ('protocol.py', 'inverter.py', 'et.py', 'es.py', 'dt.py'):
        tree = ast.parse(open(os.path.join(REPO, 'goodwe', f)).read(), f)
        for n in tree.body:
            if isinstance(n, ast.ClassDef): classes[n.name] = n
    return classes


def method(classes, cls, name):
    todo, seen = [cls], set()
    while todo:
        c = todo.pop(0)
        if c in seen or c not in classes: continue
        seen.add(c)
        for n in classes[c].body:
            if isinstance(n, (ast.FunctionDef, ast.AsyncFunctionDef)) and n.name == name: return c, n
        todo += [b.id for b in classes[c].bases if isinstance(b, ast.Name)]
    return None, None


class Subst(ast.NodeTransformer):
    def __init__(self, m): self.m = m
    def visit_Name(self, n):
        return copy.deepcopy(self.m[n.id]) if n.id in self.m else n


def bind(fn, args, keywords, node, skip_first=True):
    if fn.args.vararg or fn.args.kwarg or fn.args.kwonlyargs: fail(fn, "*args / **kwargs / keyword-only parameters")
    params = [a.arg for a in fn.args.args]
    if skip_first and params and params[0] in ('self', 'cls'): params = params[1:]
    nd = len(fn.args.defaults)
    dflts = dict(zip([a.arg for a in fn.args.args][len(fn.args.args) - nd:], fn.args.defaults))
    b = {}
    for i, a in enumerate(args):
        if isinstance(a, ast.Starred): fail(node, "starred argument")
        if i >= len(params): fail(node, "too many arguments")
        b[params[i]] = a
    for k in keywords:
        if k.arg is None or k.arg not in params or k.arg in b: fail(node, "bad keyword argument")
        b[k.arg] = k.value
    for p in params:
        if p not in b:
            if p not in dflts: fail(node, f"missing argument {p}")
            b[p] = dflts[p]
    return b


def no_rebinding(fn, names):
    """fail-closed: the traced names must never be assigned inside fn"""
    for n in ast.walk(fn):
        if isinstance(n, ast.Name) and isinstance(n.ctx, (ast.Store, ast.Del)) and n.id in names:
            fail(n, f"parameter {n.id} is re-bound")
        if isinstance(n, (ast.Global, ast.Nonlocal)): fail(n, "global/nonlocal")


def is_super_init(st):
    return isinstance(st, ast.Expr) and isinstance(st.value, ast.Call) and isinstance(st.value.func, ast.Attribute) \
        and st.value.func.attr == '__init__' and isinstance(st.value.func.value, ast.Call) \
        and isinstance(st.value.func.value.func, ast.Name) and st.value.func.value.func.id == 'super'


def protocol_fields(classes, cls, args, keywords, node, depth=0):
    """-> list of (label, {'timeout': ast, 'retries': ast}) reached by constructing cls(*args, **keywords)"""
    if depth > 8: fail(node, "constructor chain too deep")
    owner, init = method(classes, cls, '__init__')
    if init is None: fail(node, f"no __init__ for {cls}")
    b = bind(init, args, keywords, node)
    no_rebinding(init, set(b))
    results, fields = [], {}
    for st in init.body:
        if is_super_init(st):
            bases = [x.id for x in classes[owner].bases if isinstance(x, ast.Name) and x.id in classes]
            base = next((bn for bn in bases if method(classes, bn, '__init__')[1] is not None), None)
            if base is None: continue
            sub = Subst(b)
            results += protocol_fields(classes, base, [sub.visit(copy.deepcopy(a)) for a in st.value.args],
                                       [ast.keyword(arg=k.arg, value=sub.visit(copy.deepcopy(k.value))) for k in st.value.keywords], st, depth + 1)
            continue
        tgt = val = None
        if isinstance(st, ast.Assign) and len(st.targets) == 1: tgt, val = st.targets[0], st.value
        elif isinstance(st, ast.AnnAssign): tgt, val = st.target, st.value
        if tgt is not None and isinstance(tgt, ast.Attribute) and isinstance(tgt.value, ast.Name) and tgt.value.id == 'self':
            if tgt.attr in ('timeout', 'retries'):
                fields[tgt.attr] = Subst(b).visit(copy.deepcopy(val))
            if tgt.attr == '_protocol':
                # self._protocol = self._create_protocol(host, port, comm_addr, timeout, retries)
                if not (isinstance(val, ast.Call) and isinstance(val.func, ast.Attribute) and isinstance(val.func.value, ast.Name)
                        and val.func.value.id == 'self'): fail(st, "unexpected _protocol initialiser")
                _, fac = method(classes, owner, val.func.attr)
                if fac is None: fail(st, "unknown protocol factory")
                static = any(isinstance(d, ast.Name) and d.id == 'staticmethod' for d in fac.decorator_list)
                fb = bind(fac, [Subst(b).visit(copy.deepcopy(a)) for a in val.args],
                          [ast.keyword(arg=k.arg, value=Subst(b).visit(copy.deepcopy(k.value))) for k in val.keywords], st, skip_first=not static)
                no_rebinding(fac, set(fb))
                results += factory_returns(classes, fac.body, fb, 'True', depth)
    if 'timeout' in fields or 'retries' in fields:
        if set(fields) != {'timeout', 'retries'}: fail(init, "only one of timeout/retries is stored")
        results.append((cls, fields))
    return results


def factory_returns(classes, body, fb, cond, depth):
    out = []
    for st in body:
        if isinstance(st, ast.Expr) and isinstance(st.value, ast.Constant): continue
        if isinstance(st, ast.If):
            test = ast.unparse(Subst(fb).visit(copy.deepcopy(st.test)))
            out += factory_returns(classes, st.body, fb, f'{cond} and ({test})', depth)
            out += factory_returns(classes, st.orelse, fb, f'{cond} and not ({test})', depth)
            if st.body and isinstance(st.body[-1], ast.Return): cond = f'{cond} and not ({test})'
            continue
        if isinstance(st, ast.Return):
            c = st.value
            if not (isinstance(c, ast.Call) and isinstance(c.func, ast.Name) and c.func.id in classes): fail(st, "factory must return a protocol constructor call")
            sub = Subst(fb)
            for lab, f in protocol_fields(classes, c.func.id, [sub.visit(copy.deepcopy(a)) for a in c.args],
                                          [ast.keyword(arg=k.arg, value=sub.visit(copy.deepcopy(k.value))) for k in c.keywords], st, depth + 1):
                out.append((f'{c.func.id} when {cond}', f))
            return out
        fail(st, "unsupported statement in the protocol factory")
    return out


def gallina(e, params):
    if isinstance(e, ast.Name) and e.id in params: return e.id
    if isinstance(e, ast.Constant) and isinstance(e.value, int) and not isinstance(e.value, bool):
        return str(e.value) if e.value >= 0 else f'({e.value})'
    fail(e, "timeout/retries argument is not a plain parameter or integer literal")


def entry_sites(classes):
    tree = ast.parse(open(os.path.join(REPO, 'goodwe', '__init__.py')).read(), '__init__.py')
    sites = []
    for fn in tree.body:
        if not isinstance(fn, ast.AsyncFunctionDef) or fn.name not in ('connect', 'discover', 'search_inverters'): continue
        params = [a.arg for a in fn.args.args]
        no_rebinding(fn, set(params))
        loops = {}
        for n in ast.walk(fn):
            if isinstance(n, ast.For) and isinstance(n.target, ast.Name) and isinstance(n.iter, (ast.List, ast.Tuple)) \
                    and all(isinstance(x, ast.Name) and x.id in classes for x in n.iter.elts):
                loops[n.target.id] = [x.id for x in n.iter.elts]
        idx = 0
        for n in ast.walk(fn):
            if not isinstance(n, ast.Call) or not isinstance(n.func, ast.Name): continue
            targets = [n.func.id] if n.func.id in classes else loops.get(n.func.id, [])
            if n.func.id == 'discover' and fn.name == 'connect':
                # connect -> discover(host, port, timeout, retries): the callee's parameters as functions of connect's
                dfn = next(x for x in tree.body if isinstance(x, ast.AsyncFunctionDef) and x.name == 'discover')
                b = bind(dfn, n.args, n.keywords, n, skip_first=False)
                sites.append((fn.name, params, f'call_discover', 'discover', {'timeout': b['timeout'], 'retries': b['retries']})); continue
            for cls in targets:
                for lab, f in protocol_fields(classes, cls, n.args, n.keywords, n):
                    idx += 1
                    sites.append((fn.name, params, f'{cls}_{idx}', lab, f))
    return sites


def generate():
    classes = load_classes()
    sites = entry_sites(classes)
    out = ["(* GENERATED by tools/flow.py from goodwe/__init__.py, inverter.py, et.py, es.py, dt.py, protocol.py -- do not edit. *)",
           "From Coq Require Import ZArith List String.", "Import ListNotations.", "Open Scope Z_scope.", ""]
    names = []
    for fn, params, tag, lab, f in sites:
        name = f'{fn}_{tag}_cfg'
        ps = [p for p in params if p in ('timeout', 'retries')]
        out.append(f'(* {fn}(): {lab} *)')
        out.append(f'Definition {name} ' + ' '.join(f'({p} : Z)' for p in ps) + f' : Z * Z :=\n  ({gallina(f["timeout"], ps)}, {gallina(f["retries"], ps)}).\n')
        names.append((name, fn, ps))
    out.append('Definition connect_discover_sites : list (Z -> Z -> Z * Z) := [' +
               '; '.join(n for n, fn, ps in names if fn in ('connect', 'discover') and len(ps) == 2) + '].')
    out.append('Definition search_sites : list (Z * Z) := [' + '; '.join(n for n, fn, ps in names if fn == 'search_inverters') + '].')
    out.append(f'Definition n_sites : nat := {len(names)}%nat.')
    # every place in the package that ASSIGNS an attribute named timeout / retries (of any object): the budget stored by the constructor must not be
    # changed afterwards (setattr / __dict__ tricks are refused)
    import glob
    assigns = []
    for path in sorted(glob.glob(os.path.join(REPO, 'goodwe', '*.py'))):
        t = ast.parse(open(path).read(), path)
        owner = {}
        for c in ast.walk(t):
            if isinstance(c, ast.ClassDef):
                for n in c.body:
                    if isinstance(n, (ast.FunctionDef, ast.AsyncFunctionDef)): owner[n] = c.name
        for fn in ast.walk(t):
            if not isinstance(fn, (ast.FunctionDef, ast.AsyncFunctionDef)): continue
            for x in ast.walk(fn):
                tg = x.targets if isinstance(x, ast.Assign) else [x.target] if isinstance(x, (ast.AugAssign, ast.AnnAssign)) else x.targets if isinstance(x, ast.Delete) else []
                for tt in tg:
                    for el in (tt.elts if isinstance(tt, ast.Tuple) else [tt]):
                        if isinstance(el, ast.Attribute) and el.attr in ('timeout', 'retries'):
                            assigns.append(f'{owner.get(fn, os.path.basename(path)[:-3])}.{fn.name}: {ast.unparse(el)}')
                if isinstance(x, ast.Call) and ast.unparse(x.func) in ('setattr', 'delattr', 'object.__setattr__'):
                    raise Unsupported(f'flow: {ast.unparse(x)[:80]} in {os.path.basename(path)}')
                if isinstance(x, ast.Attribute) and x.attr == '__dict__': raise Unsupported(f'flow: __dict__ used in {os.path.basename(path)}:{fn.name}')
    out.append('Definition budget_assignments : list string := [' + '; '.join('"' + a + '"%string' for a in sorted(assigns)) + '].')
    # ... and every assignment to an attribute named keep_alive: the user's choice (constructor default, Inverter.set_keep_alive) is not overridden elsewhere
    ka = []
    for path in sorted(glob.glob(os.path.join(REPO, 'goodwe', '*.py'))):
        t = ast.parse(open(path).read(), path)
        owner = {}
        for c in ast.walk(t):
            if isinstance(c, ast.ClassDef):
                for n in c.body:
                    if isinstance(n, (ast.FunctionDef, ast.AsyncFunctionDef)): owner[n] = c.name
        for fn in ast.walk(t):
            if not isinstance(fn, (ast.FunctionDef, ast.AsyncFunctionDef)): continue
            for x in ast.walk(fn):
                tg = x.targets if isinstance(x, ast.Assign) else [x.target] if isinstance(x, (ast.AugAssign, ast.AnnAssign)) else x.targets if isinstance(x, ast.Delete) else []
                for tt in tg:
                    for el in (tt.elts if isinstance(tt, ast.Tuple) else [tt]):
                        if isinstance(el, ast.Attribute) and el.attr == 'keep_alive':
                            ka.append(f'{owner.get(fn, os.path.basename(path)[:-3])}.{fn.name}: {ast.unparse(el)}')
    out.append('Definition keep_alive_assignments : list string := [' + '; '.join('"' + a + '"%string' for a in sorted(ka)) + '].')
    return '\n'.join(out) + '\n'


if __name__ == '__main__':
    try:
        sys.stdout.write(generate())
    except Unsupported as ex:
        print('UNSUPPORTED:', ex); sys.exit(3)

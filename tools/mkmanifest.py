#!/usr/bin/env python3
"""Rebuilds MANIFEST.json from the property modules that exist (harness/props/cXX.py: SPEC['manifest'])."""
import json, os, sys, importlib, glob
ROOT = os.path.dirname(os.path.dirname(os.path.abspath(__file__)))
sys.path.insert(0, ROOT); sys.path.insert(0, os.environ.get('GOODWE_REPO', '/repo'))
props = [json.loads(l) for l in open(os.path.join(ROOT, 'properties.jsonl'))]
NA = json.load(open(os.path.join(ROOT, 'tools', 'not_applicable.json'))) if os.path.exists(os.path.join(ROOT, 'tools', 'not_applicable.json')) else {}
checks, na = [], []
for p in props:
    pid = p['id']
    path = os.path.join(ROOT, 'harness', 'props', pid.lower() + '.py')
    if not os.path.exists(path):
        na.append({'property_id': pid, 'reason': NA.get(pid, 'check not built yet (work in progress, see DESIGN.md section 8)')})
        continue
    spec = importlib.import_module(f'harness.props.{pid.lower()}').SPEC
    m = spec['manifest']
    checks.append({
        'property_id': pid,
        'quick_cmd': f'./check {pid} --tier quick',
        'thorough_cmd': f'./check {pid} --tier thorough',
        'evidence_file': f'evidence/{pid}.json',
        'replay_cmd_template': f'./check {pid} --replay {{path}}',
        'engine': 'coq-proof+correspondence',
        'level_claimed': {'category': spec.get('level', 'proof'), 'text': m['text'], 'design_ref': m.get('design_ref', 'DESIGN.md section 5')},
        'level_note': m['note'],
        'technique': m['technique'],
    })
man = {
    'version': 1,
    'setup_cmd': './check --setup',
    'hooks': {'guard': 'GOODWE_VERIF',
              'enable': 'no hooks are needed: all instrumentation wraps the library from outside (subclasses, instance wrappers, a virtual-time event loop); source_commits is empty',
              'baseline_off_cmd': 'cd /repo && /venv/bin/python -m pytest -q -p no:cacheprovider --timeout=900',
              'source_commits': [], 'add_only': True},
    'engines': [{'name': 'coq-proof+correspondence', 'path': 'check',
                 'serves_properties': [c['property_id'] for c in checks],
                 'kind_free_text': 'Coq 8.16.1 theorems over a model regenerated from /repo by tools/py2v.py (pure core) or hand-written and trace-validated against the real classes under a virtual-time asyncio loop (protocol / inverter state machines); Python monitors search for concrete failing inputs'}],
    'checks': checks,
    'notes': 'Fix commits made in /repo and findings recorded instead of fixed are listed in known_findings.json and DESIGN.md section 9.',
    'not_applicable': na,
}
json.dump(man, open(os.path.join(ROOT, 'MANIFEST.json'), 'w'), indent=1)
print(f'{len(checks)} checks, {len(na)} not applicable / pending')

#!/usr/bin/env python3
"""Translates ET.set_operation_mode (goodwe/et.py) into per-mode step lists of coq/Model/Modes.v, checks the shape of get_operation_mode,
and emits the numeric values of OperationMode and the registers of _set_offline / _clear_battery_mode_param -> coq/Gen/ModesGen.v.
Fail-closed."""
from __future__ import annotations
import ast, os, sys, re

REPO = os.environ.get('GOODWE_REPO', '/repo')
MODES = {'GENERAL': 'MGeneral', 'OFF_GRID': 'MOffGrid', 'BACKUP': 'MBackup', 'ECO': 'MEco', 'PEAK_SHAVING': 'MPeakShaving', 'SELF_USE': 'MSelfUse',
         'ECO_CHARGE': 'MEcoCharge', 'ECO_DISCHARGE': 'MEcoDischarge'}


class Unsupported(Exception):
    pass


def fail(node, msg):
    raise Unsupported(f"om2v: {msg}: {ast.unparse(node)[:200]} (line {getattr(node, 'lineno', '?')})")


def is_log(n):
    return (isinstance(n, ast.Expr) and isinstance(n.value, ast.Call) and isinstance(n.value.func, ast.Attribute)
            and isinstance(n.value.func.value, ast.Name) and n.value.func.value.id == 'logger')


def simple_step(n):
    src = ast.unparse(n)
    m = re.fullmatch(r"await self\.write_setting\('(\w+)', (\d+)\)", src)
    if m: return f'MWrite "{m.group(1)}"%string {m.group(2)}'
    m = re.fullmatch(r'await self\._set_offline\((True|False)\)', src)
    if m: return f'MSetOffline {m.group(1).lower()}'
    if src == 'await self._clear_battery_mode_param()': return 'MClearBattery'
    fail(n, 'step not understood')


ECO_PRE = ["if eco_mode_power < 0 or eco_mode_power > 100:\n    raise ValueError()", "if eco_mode_soc < 0 or eco_mode_soc > 100:\n    raise ValueError()",
           "eco_mode: EcoMode | Sensor = self._settings.get('eco_mode_1')",
           "try:\n    await self._read_sensor(eco_mode)\nexcept ValueError:\n    pass",
           "eco_mode.set_schedule_type(ScheduleType.ECO_MODE, is_745_platform(self))",
           "if operation_mode == OperationMode.ECO_CHARGE:\n    await self.write_setting('eco_mode_1', eco_mode.encode_charge(eco_mode_power, eco_mode_soc))\nelse:\n"
           "    await self.write_setting('eco_mode_1', eco_mode.encode_discharge(eco_mode_power))"]


def branch_modes(test):
    src = ast.unparse(test)
    m = re.fullmatch(r'operation_mode == OperationMode\.(\w+)', src)
    if m and m.group(1) in MODES: return [m.group(1)]
    m = re.fullmatch(r'operation_mode in \(OperationMode\.(\w+), OperationMode\.(\w+)\)', src)
    if m and {m.group(1), m.group(2)} == {'ECO_CHARGE', 'ECO_DISCHARGE'}: return ['ECO_CHARGE', 'ECO_DISCHARGE']
    fail(test, 'mode test not understood')


LAST = {}      # structured copy of what the last generate() emitted for the ES dispatcher (read by the translator-validation stage)


def generate():
    et = ast.parse(open(os.path.join(REPO, 'goodwe', 'et.py')).read(), 'et.py')
    cls = next(c for c in et.body if isinstance(c, ast.ClassDef) and c.name == 'ET')
    fns = {n.name: n for n in cls.body if isinstance(n, (ast.FunctionDef, ast.AsyncFunctionDef))}
    inv = ast.parse(open(os.path.join(REPO, 'goodwe', 'inverter.py')).read(), 'inverter.py')
    om = next(c for c in inv.body if isinstance(c, ast.ClassDef) and c.name == 'OperationMode')
    values = {}
    for n in om.body:
        if isinstance(n, ast.Assign) and isinstance(n.targets[0], ast.Name) and isinstance(n.value, ast.Constant) and isinstance(n.value.value, int):
            values[n.targets[0].id] = n.value.value
    if set(values) != set(MODES): raise Unsupported(f'om2v: OperationMode members changed: {sorted(values)}')
    # set_operation_mode
    fn = fns.get('set_operation_mode')
    if not isinstance(fn, ast.AsyncFunctionDef) or [a.arg for a in fn.args.args] != ['self', 'operation_mode', 'eco_mode_power', 'eco_mode_soc']:
        raise Unsupported('om2v: set_operation_mode signature')
    if [ast.unparse(d) for d in fn.args.defaults] != ['100', '100']: raise Unsupported('om2v: set_operation_mode defaults')
    body = [n for n in fn.body if not (isinstance(n, ast.Expr) and isinstance(n.value, ast.Constant))]
    if len(body) != 1 or not isinstance(body[0], ast.If): fail(fn, 'set_operation_mode is not one if/elif chain')
    steps = {}
    node = body[0]
    while True:
        ms = branch_modes(node.test)
        nb = [n for n in node.body if not is_log(n)]
        if ms == ['ECO_CHARGE', 'ECO_DISCHARGE']:
            if [ast.unparse(n) for n in nb[:len(ECO_PRE)]] != ECO_PRE: fail(node, 'the emulated eco-mode branch does not have the modelled prefix')
            rest = [simple_step(n) for n in nb[len(ECO_PRE):]]
            steps['ECO_CHARGE'] = ['MCheckRange', 'MEcoGroup true'] + rest
            steps['ECO_DISCHARGE'] = ['MCheckRange', 'MEcoGroup false'] + rest
        else:
            steps[ms[0]] = [simple_step(n) for n in nb]
        if len(node.orelse) == 1 and isinstance(node.orelse[0], ast.If): node = node.orelse[0]
        elif not node.orelse: break
        else: fail(node, 'else branch')
    if set(steps) != set(MODES): raise Unsupported(f'om2v: set_operation_mode does not handle exactly the members of OperationMode: {sorted(steps)}')
    # helpers
    so = [ast.unparse(n) for n in fns['_set_offline'].body]
    m = re.fullmatch(r"value = bytes\.fromhex\('([0-9a-fA-F]{8})'\) if mode else bytes\.fromhex\('([0-9a-fA-F]{8})'\)", so[0]) if len(so) == 2 else None
    m2 = re.fullmatch(r'await self\._read_from_socket\(self\._write_multi_command\((\w+), value\)\)', so[1]) if m else None
    if not m2: fail(fns['_set_offline'], '_set_offline not understood')
    cb = [ast.unparse(n) for n in fns['_clear_battery_mode_param'].body]
    m3 = re.fullmatch(r'await self\._read_from_socket\(self\._write_command\((\w+), (\d+)\)\)', cb[0]) if len(cb) == 1 else None
    if not m3: fail(fns['_clear_battery_mode_param'], '_clear_battery_mode_param not understood')
    # get_operation_mode shape
    g = [ast.unparse(n) for n in fns['get_operation_mode'].body]
    want = ["mode_id = await self.read_setting('work_mode')",
            "try:\n    mode = OperationMode(mode_id)\nexcept ValueError:\n    logger.debug('Unknown work_mode value %s', mode_id)\n    return None",
            "if OperationMode.ECO != mode:\n    return mode", "eco_mode = await self.read_setting('eco_mode_1')",
            "if eco_mode.is_eco_charge_mode():\n    return OperationMode.ECO_CHARGE", "if eco_mode.is_eco_discharge_mode():\n    return OperationMode.ECO_DISCHARGE",
            "return OperationMode.ECO"]
    if g != want: fail(fns['get_operation_mode'], 'get_operation_mode does not have the modelled shape')

    def bl(h): return '[' + '; '.join(str(b) for b in bytes.fromhex(h)) + ']'

    # guarded setters / getters: set_grid_export_limit, set_ongrid_battery_dod and their getters (ET and DT)
    def guarded(cls_fns, fam, setter, getter, arg):
        fs, fg = cls_fns.get(setter), cls_fns.get(getter)
        if not isinstance(fs, ast.AsyncFunctionDef) or [a.arg for a in fs.args.args] != ['self', arg]: raise Unsupported(f'om2v: {fam}.{setter} signature')
        sb = [n for n in fs.body if not (isinstance(n, ast.Expr) and isinstance(n.value, ast.Constant)) and not is_log(n)]
        if len(sb) == 1 and isinstance(sb[0], ast.Raise): return None          # "Operation not supported"
        if len(sb) != 1 or not isinstance(sb[0], ast.If) or sb[0].orelse or len(sb[0].body) != 1: fail(fs, f'{setter} is not one guarded write')
        t = ast.unparse(sb[0].test)
        if t == f'{arg} >= 0': lo, hi = 'Some 0', 'None'
        else:
            mm = re.fullmatch(rf'(-?\d+) <= {arg} <= (-?\d+)', t)
            if not mm: fail(sb[0].test, 'guard not understood')
            lo, hi = f'Some ({mm.group(1)})', f'Some ({mm.group(2)})'
        w = ast.unparse(sb[0].body[0])
        mw = re.fullmatch(rf"(?:return )?await self\.write_setting\('(\w+)', (?:(\d+) - )?{arg}\)", w)
        if not mw: fail(sb[0].body[0], 'guarded statement is not a write_setting of the argument')
        gb = [ast.unparse(n) for n in fg.body if not (isinstance(n, ast.Expr) and isinstance(n.value, ast.Constant))]
        mg = re.fullmatch(r"return (?:(\d+) - )?await self\.read_setting\('(\w+)'\)", gb[0]) if len(gb) == 1 else None
        if not mg: fail(fg, f'{getter} is not a read_setting')
        if mg.group(2) != mw.group(1) or mg.group(1) != mw.group(2): fail(fg, f'{getter} / {setter} do not use the same setting and complement')
        compl = f'Some {mw.group(2)}' if mw.group(2) else 'None'
        return f'Some (mkGS "{mw.group(1)}"%string ({lo}) ({hi}) ({compl}))'
    dtt = ast.parse(open(os.path.join(REPO, 'goodwe', 'dt.py')).read(), 'dt.py')
    dcls = next(c for c in dtt.body if isinstance(c, ast.ClassDef) and c.name == 'DT')
    dfns = {n.name: n for n in dcls.body if isinstance(n, (ast.FunctionDef, ast.AsyncFunctionDef))}
    gs = {}
    for fam, f in (('et', fns), ('dt', dfns)):
        gs[f'{fam}_export_limit'] = guarded(f, fam, 'set_grid_export_limit', 'get_grid_export_limit', 'export_limit')
        gs[f'{fam}_dod'] = guarded(f, fam, 'set_ongrid_battery_dod', 'get_ongrid_battery_dod', 'dod')
    # ES.set_operation_mode: the dispatcher as step lists, and the work mode each mode helper commands last
    est = ast.parse(open(os.path.join(REPO, 'goodwe', 'es.py')).read(), 'es.py')
    ecls = next(c for c in est.body if isinstance(c, ast.ClassDef) and c.name == 'ES')
    efns = {n.name: n for n in ecls.body if isinstance(n, (ast.FunctionDef, ast.AsyncFunctionDef))}
    HELPERS = {'_set_general_mode': 'HGeneral', '_set_offgrid_mode': 'HOffGrid', '_set_backup_mode': 'HBackup', '_set_eco_mode': 'HEco'}
    ES_ECO_PRE = ECO_PRE[:3] + ["await self._read_setting(eco_mode)", "eco_mode.set_schedule_type(ScheduleType.ECO_MODE, False)", ECO_PRE[5]]

    def es_step(n):
        src = ast.unparse(n)
        mh = re.fullmatch(r'await self\.(_set_\w+_mode)\(\)', src)
        if mh and mh.group(1) in HELPERS: return f'EsHelper {HELPERS[mh.group(1)]}'
        mw = re.fullmatch(r"await self\.write_setting\('(\w+)', (\d+)\)", src)
        if mw: return f'EsWrite "{mw.group(1)}"%string {mw.group(2)}'
        if src == "raise InverterError('Operation not supported.')": return 'EsUnsupported'
        fail(n, 'ES.set_operation_mode: step not understood')
    efn = efns.get('set_operation_mode')
    if not isinstance(efn, ast.AsyncFunctionDef) or [a.arg for a in efn.args.args] != ['self', 'operation_mode', 'eco_mode_power', 'eco_mode_soc'] \
            or [ast.unparse(d) for d in efn.args.defaults] != ['100', '100']:
        raise Unsupported('om2v: ES.set_operation_mode signature')
    ebody = [n for n in efn.body if not (isinstance(n, ast.Expr) and isinstance(n.value, ast.Constant))]
    if len(ebody) != 1 or not isinstance(ebody[0], ast.If): fail(efn, 'ES.set_operation_mode is not one if/elif chain')
    esteps = {}
    node = ebody[0]
    while True:
        ms = branch_modes(node.test)
        nb = [n for n in node.body if not is_log(n)]
        if any(k in esteps for k in ms): fail(node, 'mode handled twice')
        if ms == ['ECO_CHARGE', 'ECO_DISCHARGE']:
            if [ast.unparse(n) for n in nb[:len(ES_ECO_PRE)]] != ES_ECO_PRE: fail(node, 'the emulated eco-mode branch of ES does not have the modelled prefix')
            rest = [es_step(n) for n in nb[len(ES_ECO_PRE):]]
            esteps['ECO_CHARGE'] = ['EsCheckRange', 'EsEcoGroup true'] + rest
            esteps['ECO_DISCHARGE'] = ['EsCheckRange', 'EsEcoGroup false'] + rest
        else:
            esteps[ms[0]] = [es_step(n) for n in nb]
        if len(node.orelse) == 1 and isinstance(node.orelse[0], ast.If): node = node.orelse[0]
        elif not node.orelse: break
        else: fail(node, 'else branch')
    finals = {}
    for hname, hcon in HELPERS.items():
        hf = efns.get(hname)
        if not isinstance(hf, ast.AsyncFunctionDef) or [a.arg for a in hf.args.args] != ['self']: raise Unsupported(f'om2v: ES.{hname} signature')
        for x in ast.walk(hf):
            if isinstance(x, (ast.Return, ast.Raise, ast.Try, ast.While, ast.For)): fail(x, f'ES.{hname}: control flow that may skip the last statement')
        mlast = re.fullmatch(r'await self\._set_work_mode\(OperationMode\.(\w+)\)', ast.unparse(hf.body[-1]))
        if not mlast or mlast.group(1) not in MODES: fail(hf, f'ES.{hname} does not end with _set_work_mode(OperationMode.X)')
        if sum(1 for x in ast.walk(hf) if isinstance(x, ast.Attribute) and x.attr == '_set_work_mode') != 1: fail(hf, f'ES.{hname} commands the work mode more than once')
        finals[hcon] = MODES[mlast.group(1)]
    LAST['es_steps'] = dict(esteps); LAST['es_finals'] = dict(finals)
    swm = efns.get('_set_work_mode')
    if not isinstance(swm, ast.AsyncFunctionDef) or [ast.unparse(n) for n in swm.body] != ["await self._read_from_socket(Aa55ProtocolCommand(f'035901{mode:02x}', '03D9'))"]:
        raise Unsupported('om2v: ES._set_work_mode is not the single command 035901<mode>')
    eg = [ast.unparse(n) for n in efns['get_operation_mode'].body]
    if eg != want: fail(efns['get_operation_mode'], 'ES.get_operation_mode does not have the modelled shape')
    out = ["(* GENERATED by tools/om2v.py from goodwe/et.py, goodwe/es.py and goodwe/inverter.py -- do not edit.  Regenerated on every check run. *)",
           "From Coq Require Import ZArith List String.", "From GW Require Import Modes ESModes.", "Import ListNotations.", "Open Scope Z_scope.", ""]
    out.append('Definition om_values : list (mode * Z) := [' + '; '.join(f'({MODES[k]}, {v})' for k, v in values.items()) + '].')
    out.append(f'Definition om_offline : Z * list Z * list Z := ({int(m2.group(1), 0)}, {bl(m.group(1))}, {bl(m.group(2))}).')
    out.append(f'Definition om_clear : Z * Z := ({int(m3.group(1), 0)}, {m3.group(2)}).')
    out.append('Definition et_set_mode (m : mode) : list mstep :=\n  match m with')
    for k in MODES:
        out.append(f'  | {MODES[k]} => [' + '; '.join(steps[k]) + ']')
    out.append('  end.\n')
    out.append('Definition es_set_mode (m : mode) : option (list esstep) :=\n  match m with')
    for k in MODES:
        out.append(f'  | {MODES[k]} => ' + ('Some [' + '; '.join(esteps[k]) + ']' if k in esteps else 'None'))
    out.append('  end.')
    out.append('Definition es_helper_final (h : eshelper) : mode :=\n  match h with ' + ' | '.join(f'{h} => {m}' for h, m in finals.items()) + ' end.\n')
    out.append('(* guarded setters with their getters: setting id, lower / upper bound of the accepted argument, `c - x` written / returned when Some c; None = not supported *)')
    for k, v in gs.items():
        out.append(f'Definition {k} : option gsetter := {v or "None"}.')
    out.append('')
    return '\n'.join(out) + '\n'


if __name__ == '__main__':
    try:
        sys.stdout.write(generate())
    except Unsupported as ex:
        print('UNSUPPORTED:', ex); sys.exit(3)

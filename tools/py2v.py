#!/usr/bin/env python3
"""py2v: fail-closed translator from the pure Python subset used by goodwe to Gallina.

Anything outside the supported subset raises Unsupported(source location) and aborts the
generation (the check then reports the broken obligation).  The meaning of every Python
primitive is fixed by coq/Py/*.v (validated against CPython by harness/corr_pure.py).
"""
from __future__ import annotations
import ast, sys, os, textwrap


class Unsupported(Exception):
    pass


def fail(node, msg):
    loc = f"line {getattr(node, 'lineno', '?')}"
    raise Unsupported(f"{msg} at {loc}: {ast.dump(node)[:200] if isinstance(node, ast.AST) else node}")


# ----------------------------------------------------------------------------- types
Z, BOOL, BYTES, STR, FLOAT, NONE, UNIT, VAL, BUF, SCHED, DATE = \
    'Z', 'bool', 'bytes', 'str', 'float', 'none', 'unit', 'val', 'buf', 'sched', 'date'


REC_COQ = {}


def opt(t): return ('opt', t)
def lst(t): return ('list', t)
def dct(t): return ('dict', t)
def tup(ts): return ('tuple', tuple(ts))
def is_opt(t): return isinstance(t, tuple) and t[0] == 'opt'


def coq_type(t):
    if t == Z: return 'Z'
    if t == BOOL: return 'bool'
    if t == BYTES: return '(list Z)'
    if t == STR: return 'string'
    if t == FLOAT: return 'float'
    if t == UNIT or t == NONE: return 'unit'
    if t == VAL: return 'val'
    if t == BUF: return 'buf'
    if t == SCHED: return 'Z'
    if t == DATE: return 'pydate'
    if isinstance(t, tuple):
        if t[0] == 'opt': return f'(option {coq_type(t[1])})'
        if t[0] == 'list': return f'(list {coq_type(t[1])})' if t[1] is not None else '(list Z)'
        if t[0] == 'dict': return f'(list (Z * {coq_type(t[1])}))'
        if t[0] == 'tuple': return '(' + ' * '.join(coq_type(x) for x in t[1]) + ')'
        if t[0] == 'rec': return REC_COQ.get(t[1], t[1])
    raise Unsupported(f"no Coq type for {t}")


def join(a, b, node=None):
    if a == b: return a
    if a is None: return b
    if b is None: return a
    if a == NONE: return b if is_opt(b) or b == VAL else opt(b)
    if b == NONE: return a if is_opt(a) or a == VAL else opt(a)
    if is_opt(a) and a[1] == b: return a
    if is_opt(b) and b[1] == a: return b
    if a == SCHED and b == Z or a == Z and b == SCHED: return Z
    nums = (Z, FLOAT, VAL, BOOL)
    def numlike(t): return t in nums or (is_opt(t) and t[1] in nums)
    if numlike(a) and numlike(b): return VAL
    if VAL in (a, b): return VAL
    fail(node, f"cannot join types {a} and {b}")


def coerce(term, frm, to, node=None):
    if frm == to: return term
    if frm == SCHED and to == Z or frm == Z and to == SCHED: return term
    if is_opt(to):
        if frm == NONE: return 'None'
        if is_opt(frm):
            return f'(option_map (fun x_ => {coerce("x_", frm[1], to[1], node)}) {term})'
        return f'(Some {coerce(term, frm, to[1], node)})'
    if to == VAL:
        if frm == NONE: return 'VNone'
        if frm == Z or frm == SCHED: return f'(VInt {term})'
        if frm == FLOAT: return f'(VFloat {term})'
        if frm == STR: return f'(VStr {term})'
        if frm == BOOL: return f'(VBool {term})'
        if frm == BYTES: return f'(VBytes {term})'
        if frm == DATE: return f'(VDate {term})'
        if is_opt(frm):
            return f'(match {term} with Some x_ => {coerce("x_", frm[1], VAL, node)} | None => VNone end)'
    if to == UNIT and frm == NONE: return 'tt'
    fail(node, f"cannot coerce {frm} to {to}")


# ----------------------------------------------------------------------------- IR
# ('ret', term, type) | ('raise', exnterm) | ('bind', pat, mterm, k) | ('let', pat, term, k)
# | ('if', cond, a, b) | ('matchopt', scrut, var, some_ir, none_ir)

def ir_pure(ir):
    k = ir[0]
    if k == 'ret': return True
    if k in ('raise', 'bind'): return False
    if k == 'let': return ir_pure(ir[3])
    if k == 'if': return ir_pure(ir[2]) and ir_pure(ir[3])
    if k == 'matchopt': return ir_pure(ir[3]) and ir_pure(ir[4])
    raise AssertionError(k)


def ir_ret_types(ir, acc):
    k = ir[0]
    if k == 'ret': acc.append(ir[2])
    elif k in ('bind', 'let'): ir_ret_types(ir[3], acc)
    elif k == 'if': ir_ret_types(ir[2], acc); ir_ret_types(ir[3], acc)
    elif k == 'matchopt': ir_ret_types(ir[3], acc); ir_ret_types(ir[4], acc)
    return acc


def ir_print(ir, pure, rtype, wrap, ind=2):
    """wrap(term, type) -> final returned term (coercion + state tuple)."""
    sp = ' ' * ind
    k = ir[0]
    if k == 'ret':
        t = wrap(ir[1], ir[2])
        return f'{sp}{t}' if pure else f'{sp}Ok {paren(t)}'
    if k == 'raise':
        return f'{sp}Exc {paren(ir[1])}'
    if k == 'bind':
        pat = ir[1] if not ir[1].startswith('(') else "'" + ir[1]
        return f'{sp}{pat} <- {ir[2]} ;;\n' + ir_print(ir[3], pure, rtype, wrap, ind)
    if k == 'let':
        pat = ir[1] if not ir[1].startswith('(') else "'" + ir[1]
        return f'{sp}let {pat} := {ir[2]} in\n' + ir_print(ir[3], pure, rtype, wrap, ind)
    if k == 'if':
        return (f'{sp}if {ir[1]} then\n' + ir_print(ir[2], pure, rtype, wrap, ind + 2) +
                f'\n{sp}else\n' + ir_print(ir[3], pure, rtype, wrap, ind + 2))
    if k == 'matchopt':
        return (f'{sp}match {ir[1]} with\n{sp}| Some {ir[2]} =>\n' + ir_print(ir[3], pure, rtype, wrap, ind + 4) +
                f'\n{sp}| None =>\n' + ir_print(ir[4], pure, rtype, wrap, ind + 4) + f'\n{sp}end')
    raise AssertionError(k)


def paren(t):
    t = t.strip()
    if t.startswith('(') and matching(t): return t
    if all(c.isalnum() or c in '_.' for c in t): return t
    if t.startswith('"') and t.endswith('%string') and t.count('"') == 2: return t
    return f'({t})'


def matching(t):
    d = 0
    for i, c in enumerate(t):
        if c == '(': d += 1
        elif c == ')':
            d -= 1
            if d == 0 and i != len(t) - 1: return False
    return d == 0


def zlit(n):
    return str(n) if n >= 0 else f'({n})'


def strlit(s):
    for ch in s:
        if ord(ch) < 32 or ord(ch) > 126:
            raise Unsupported(f"non printable char in string literal {s!r}")
    return '"' + s.replace('"', '""') + '"%string'


# ----------------------------------------------------------------------------- function signatures
class Sig:
    def __init__(self, name, coqname, params, rtype, pure, state=(), defaults=None):
        self.name = name            # python name
        self.coqname = coqname
        self.params = params        # list of (pyname, type)
        self.rtype = rtype          # python-level return type (without state)
        self.pure = pure            # True: returns value, False: returns res value
        self.state = tuple(state)   # names of params (type buf / self-state / globals) returned updated, in order
        self.defaults = defaults or {}
        self.globals_ = []

    def full_rtype(self):
        if not self.state: return self.rtype
        return tup([self.rtype] + [dict(self.params)[s] for s in self.state])


class Module:
    """Translation unit: holds global constants, function signatures, emitted text."""

    def __init__(self, name):
        self.name = name
        self.consts = {}     # pyname -> (coqname, type)
        self.sigs = {}       # pyname (or Class.method) -> Sig
        self.out = []
        self.enums = {}      # EnumClass -> {member: int}
        self.classes = {}    # class name -> ast.ClassDef
        self.funcs = {}      # pending function asts: pyname -> (node, owner class or None)
        self.records = {}    # class name -> record info for 'self'
        self.mutable_classes = set()
        self.hooks = {}

    def emit(self, s):
        self.out.append(s)

    def text(self):
        return '\n'.join(self.out) + '\n'


# ----------------------------------------------------------------------------- function translator
class Fn:
    def __init__(self, mod: Module, name, coqname, node, params, owner=None, globals_=(), self_type=None):
        self.mod = mod
        self.name = name
        self.coqname = coqname
        self.node = node
        self.params = params          # list of (pyname, type)
        self.owner = owner
        self.tmp = 0
        self.state = []               # state variables returned (buf params, globals, mutable self)
        self.self_type = self_type
        self.globals_ = list(globals_)

    def fresh(self, base='t'):
        self.tmp += 1
        if base.startswith('_'): base = 'u' + base
        return f'{base}_{self.tmp}'

    # ---- expressions.  returns (term, type); appends (pat, mterm) to pre for raising sub-terms
    def expr(self, e, env, pre):
        m = getattr(self, 'e_' + type(e).__name__, None)
        if m is None: fail(e, "unsupported expression")
        return m(e, env, pre)

    def sub_ir(self, e, env):
        """translate e in its own binding context -> (ir builder, type): used for short-circuit operands"""
        pre = []
        t, ty = self.expr(e, env, pre)
        return pre, t, ty

    def wrap_pre(self, pre, ir):
        for pat, m in reversed(pre):
            ir = ('bind', pat, m[1], ir) if m[0] == 'M' else ('let', pat, m[1], ir)
        return ir

    def bindm(self, pre, mterm, base='t'):
        v = self.fresh(base)
        pre.append((v, ('M', mterm)))
        return v

    def e_Constant(self, e, env, pre):
        v = e.value
        if v is None: return 'None', NONE
        if v is True: return 'true', BOOL
        if v is False: return 'false', BOOL
        if isinstance(v, int): return zlit(v), Z
        if isinstance(v, str): return strlit(v), STR
        if isinstance(v, float):
            return f'({float_lit(v)})%float', FLOAT
        fail(e, "constant")

    def e_Name(self, e, env, pre):
        if e.id in env: return env[e.id]
        if e.id in self.mod.consts: return self.mod.consts[e.id]
        fail(e, f"unknown name {e.id}")

    def e_UnaryOp(self, e, env, pre):
        t, ty = self.expr(e.operand, env, pre)
        if isinstance(e.op, ast.USub):
            if ty == Z: return f'(- {paren(t)})', Z
            if ty == FLOAT: return f'(PrimFloat.opp {paren(t)})', FLOAT
        if isinstance(e.op, ast.Not):
            return f'(negb {paren(self.truthy(t, ty, e))})', BOOL
        fail(e, "unary op")

    def truthy(self, t, ty, node):
        if ty == BOOL: return t
        if ty == Z: return f'(negb ({t} =? 0))'
        if ty == STR: return f'(negb (String.eqb {paren(t)} ""%string))'
        if ty == BYTES or (isinstance(ty, tuple) and ty[0] == 'list'): return f'(negb (blen {paren(t)} =? 0))'
        if is_opt(ty):
            inner = self.truthy('x_', ty[1], node) if ty[1] in (Z, STR, BYTES, BOOL) else 'true'
            return f'(match {t} with Some x_ => {inner} | None => false end)'
        if ty == VAL: return f'(val_truthy {paren(t)})'
        if isinstance(ty, tuple) and ty[0] == 'rec': return 'true'
        fail(node, f"truthiness of {ty}")

    ZBIN = {ast.Add: '+', ast.Sub: '-', ast.Mult: '*'}
    ZFUN = {ast.RShift: 'Z.shiftr', ast.LShift: 'Z.shiftl', ast.BitAnd: 'Z.land', ast.BitOr: 'Z.lor',
            ast.BitXor: 'Z.lxor'}
    FBIN = {ast.Add: 'PrimFloat.add', ast.Sub: 'PrimFloat.sub', ast.Mult: 'PrimFloat.mul', ast.Div: 'PrimFloat.div'}
    VBIN = {ast.Add: 'val_add', ast.Sub: 'val_sub', ast.Mult: 'val_mul', ast.Div: 'val_div'}

    def e_BinOp(self, e, env, pre):
        a, ta = self.expr(e.left, env, pre)
        b, tb = self.expr(e.right, env, pre)
        op = type(e.op)
        if ta == SCHED: ta = Z
        if tb == SCHED: tb = Z
        if ta == Z and tb == Z:
            if op in self.ZBIN: return f'({a} {self.ZBIN[op]} {b})', Z
            if op in self.ZFUN: return f'({self.ZFUN[op]} {paren(a)} {paren(b)})', Z
            if op is ast.Pow and isinstance(e.right, ast.Constant): return f'({a} ^ {b})', Z
            if op is ast.FloorDiv:
                if isinstance(e.right, ast.Constant) and e.right.value != 0: return f'({a} / {b})', Z
                return self.bindm(pre, f'py_floordiv {paren(a)} {paren(b)}'), Z
            if op is ast.Mod:
                if isinstance(e.right, ast.Constant) and e.right.value != 0: return f'({a} mod {b})', Z
                return self.bindm(pre, f'py_mod {paren(a)} {paren(b)}'), Z
            if op is ast.Div:
                return self.bindm(pre, f'val_div (VInt {paren(a)}) (VInt {paren(b)})'), VAL
        if ta == STR and tb == STR and op is ast.Add: return f'({a} ++ {b})%string', STR
        if ta == BYTES and tb == BYTES and op is ast.Add: return f'({a} ++ {b})', BYTES
        if FLOAT in (ta, tb) and ta in (Z, FLOAT) and tb in (Z, FLOAT) and op in self.FBIN:
            fa = a if ta == FLOAT else f'(float_of_Z {paren(a)})'
            fb = b if tb == FLOAT else f'(float_of_Z {paren(b)})'
            if op is ast.Div:
                # ZeroDivisionError only when the divisor is zero: constant divisors are checked here
                if isinstance(e.right, ast.Constant) and e.right.value != 0:
                    return f'({self.FBIN[op]} {fa} {fb})', FLOAT
                return self.bindm(pre, f'py_fdiv {fa} {fb}'), FLOAT
            return f'({self.FBIN[op]} {fa} {fb})', FLOAT
        if op in self.VBIN:
            va, vb = coerce(a, ta, VAL, e), coerce(b, tb, VAL, e)
            return self.bindm(pre, f'{self.VBIN[op]} {paren(va)} {paren(vb)}'), VAL
        fail(e, f"binary op on {ta}, {tb}")

    CMP = {ast.Eq: '=?', ast.Lt: '<?', ast.LtE: '<=?', ast.Gt: '>?', ast.GtE: '>=?'}
    VCMP = {ast.Eq: 'val_eq', ast.NotEq: 'val_ne', ast.Lt: 'val_lt', ast.LtE: 'val_le', ast.Gt: 'val_gt', ast.GtE: 'val_ge'}

    def cmp1(self, op, a, ta, b, tb, node, pre):
        op_t = type(op)
        if ta == SCHED: ta = Z
        if tb == SCHED: tb = Z
        if op_t in (ast.Is, ast.IsNot):
            if tb != NONE: fail(node, "is / is not only against None")
            if is_opt(ta):
                r = f'(match {a} with Some _ => false | None => true end)'
            elif ta == NONE: r = 'true'
            elif ta == VAL: r = f'(val_is_none {paren(a)})'
            else: r = 'false'
            return (r if op_t is ast.Is else f'(negb {r})'), BOOL
        if op_t in (ast.In, ast.NotIn):
            if tb == STR and ta == STR: r = f'(str_in {paren(a)} {paren(b)})'
            elif isinstance(tb, tuple) and tb[0] == 'list' and tb[1] == Z and ta == Z: r = f'(Zmember {paren(a)} {paren(b)})'
            elif isinstance(tb, tuple) and tb[0] == 'list' and tb[1] == STR and ta == STR:
                r = f'(existsb (String.eqb {paren(a)}) {paren(b)})'
            elif isinstance(tb, tuple) and tb[0] == 'list' and tb[1] == Z and is_opt(ta) and ta[1] == Z:
                r = f'(match {a} with Some x_ => Zmember x_ {paren(b)} | None => false end)'
            else: fail(node, f"in on {ta}, {tb}")
            return (r if op_t is ast.In else f'(negb {r})'), BOOL
        if ta == Z and tb == Z:
            if op_t is ast.NotEq: return f'(negb ({a} =? {b}))', BOOL
            return f'({a} {self.CMP[op_t]} {b})', BOOL
        if ta == STR and tb == STR:
            if op_t is ast.Eq: return f'(String.eqb {paren(a)} {paren(b)})', BOOL
            if op_t is ast.NotEq: return f'(negb (String.eqb {paren(a)} {paren(b)}))', BOOL
        if ta == BOOL and tb == BOOL and op_t in (ast.Eq, ast.NotEq):
            r = f'(Bool.eqb {paren(a)} {paren(b)})'
            return (r if op_t is ast.Eq else f'(negb {r})'), BOOL
        # == / != between an optional int and an int never raise in Python
        if op_t in (ast.Eq, ast.NotEq) and {ta, tb} <= {Z, opt(Z), NONE}:
            oa, ob = coerce(a, ta, opt(Z), node), coerce(b, tb, opt(Z), node)
            r = f'(optZ_eqb {paren(oa)} {paren(ob)})'
            return (r if op_t is ast.Eq else f'(negb {r})'), BOOL
        if op_t in self.VCMP:
            va, vb = coerce(a, ta, VAL, node), coerce(b, tb, VAL, node)
            return self.bindm(pre, f'{self.VCMP[op_t]} {paren(va)} {paren(vb)}'), BOOL
        fail(node, f"compare {ta} {tb}")

    def e_Compare(self, e, env, pre):
        left, tl = self.expr(e.left, env, pre)
        if len(e.ops) > 1 and pre is not None:
            # chained comparison: operands are evaluated once, left to right; later comparisons are
            # only evaluated when the earlier ones hold.  Only pure operand chains are supported.
            pass
        terms = []
        a, ta = left, tl
        for op, comp in zip(e.ops, e.comparators):
            n0 = len(pre)
            b, tb = self.expr(comp, env, pre)
            r, _ = self.cmp1(op, a, ta, b, tb, e, pre)
            if terms and len(pre) != n0: fail(e, "raising operand in chained comparison")
            terms.append(r)
            a, ta = b, tb
        if len(terms) == 1: return terms[0], BOOL
        return '(' + ' && '.join(terms) + ')', BOOL

    def e_BoolOp(self, e, env, pre):
        is_and = isinstance(e.op, ast.And)
        # evaluate left to right with short-circuit; operands that need bindings become monadic ifs
        acc_t, acc_ty = self.expr(e.values[0], env, pre)
        acc_t = self.truthy(acc_t, acc_ty, e)
        for v in e.values[1:]:
            spre, t, ty = self.sub_ir(v, env)
            t = self.truthy(t, ty, e)
            if not spre:
                acc_t = f'({acc_t} && {t})' if is_and else f'({acc_t} || {t})'
            else:
                inner = self.wrap_pre(spre, ('ret', t, BOOL))
                body = ir_print(inner, False, BOOL, lambda x, ty_: x, 0).replace('\n', ' ')
                if is_and: m = f'(if {acc_t} then ({body}) else Ok false)'
                else: m = f'(if {acc_t} then Ok true else ({body}))'
                acc_t = self.bindm(pre, m, 'b')
        return acc_t, BOOL

    def e_IfExp(self, e, env, pre):
        # narrowing on `x is not None` / `x is None`
        nar = self.narrow_test(e.test, env)
        if nar:
            name, positive = nar
            t0, ty0 = env[name]
            v = self.fresh(name)
            env_some = dict(env); env_some[name] = (v, ty0[1])
            ps, ts, tys = self.sub_ir(e.body if positive else e.orelse, env_some if True else env)
            pn, tn, tyn = self.sub_ir(e.orelse if positive else e.body, env)
            ty = join(tys, tyn, e)
            if not ps and not pn:
                return (f'(match {t0} with Some {v} => {coerce(ts, tys, ty, e)} | None => {coerce(tn, tyn, ty, e)} end)', ty)
            irs = self.wrap_pre(ps, ('ret', coerce(ts, tys, ty, e), ty))
            irn = self.wrap_pre(pn, ('ret', coerce(tn, tyn, ty, e), ty))
            body = ir_print(('matchopt', t0, v, irs, irn), False, ty, lambda x, ty_: x, 0).replace('\n', ' ')
            return self.bindm(pre, f'({body})'), ty
        c, tc = self.expr(e.test, env, pre)
        c = self.truthy(c, tc, e)
        pa, a, ta = self.sub_ir(e.body, env)
        pb, b, tb = self.sub_ir(e.orelse, env)
        ty = join(ta, tb, e)
        a, b = coerce(a, ta, ty, e), coerce(b, tb, ty, e)
        if not pa and not pb:
            return f'(if {c} then {a} else {b})', ty
        ira = self.wrap_pre(pa, ('ret', a, ty)); irb = self.wrap_pre(pb, ('ret', b, ty))
        body = ir_print(('if', c, ira, irb), False, ty, lambda x, ty_: x, 0).replace('\n', ' ')
        return self.bindm(pre, f'({body})'), ty

    def narrow_test(self, test, env):
        if isinstance(test, ast.Compare) and len(test.ops) == 1 and isinstance(test.left, ast.Name) \
                and isinstance(test.comparators[0], ast.Constant) and test.comparators[0].value is None \
                and test.left.id in env and is_opt(env[test.left.id][1]):
            if isinstance(test.ops[0], ast.IsNot): return test.left.id, True
            if isinstance(test.ops[0], ast.Is): return test.left.id, False
        return None

    def e_Tuple(self, e, env, pre):
        items = [self.expr(x, env, pre) for x in e.elts]
        if not items: return '[]', lst(None)
        tys = {ty for _, ty in items}
        if len(tys) == 1:
            ty = tys.pop()
            return '[' + '; '.join(t for t, _ in items) + ']', lst(ty)
        fail(e, "heterogeneous tuple")

    e_List = e_Tuple

    def slice_arg(self, s, env, pre):
        if s is None: return 'None'
        t, ty = self.expr(s, env, pre)
        if ty != Z: fail(s, "slice bound must be int")
        return f'(Some {t})'

    def e_Subscript(self, e, env, pre):
        b, tb = self.expr(e.value, env, pre)
        if isinstance(e.slice, ast.Slice):
            if e.slice.step is not None:
                if isinstance(e.slice.step, ast.UnaryOp) and e.slice.lower is None and e.slice.upper is None \
                        and tb == STR:
                    return f'(str_rev {paren(b)})', STR
                fail(e, "slice step")
            lo = self.slice_arg(e.slice.lower, env, pre)
            hi = self.slice_arg(e.slice.upper, env, pre)
            if tb == STR: return f'(str_slice {paren(b)} {lo} {hi})', STR
            if tb == BYTES or (isinstance(tb, tuple) and tb[0] == 'list'):
                return f'(py_slice {paren(b)} {lo} {hi})', tb
            fail(e, f"slice of {tb}")
        i, ti = self.expr(e.slice, env, pre)
        if ti != Z: fail(e, "index must be int")
        if tb == BYTES or tb == lst(Z): return self.bindm(pre, f'py_index {paren(b)} {paren(i)}'), Z
        if tb == STR: return self.bindm(pre, f'str_index {paren(b)} {paren(i)}'), STR
        if tb == lst(STR): return self.bindm(pre, f'py_index_g ""%string {paren(b)} {paren(i)}'), STR
        fail(e, f"subscript of {tb}")

    def e_JoinedStr(self, e, env, pre):
        parts = []
        for v in e.values:
            if isinstance(v, ast.Constant):
                parts.append(strlit(v.value))
            elif isinstance(v, ast.FormattedValue):
                t, ty = self.expr(v.value, env, pre)
                spec = None
                if v.format_spec is not None:
                    if len(v.format_spec.values) != 1 or not isinstance(v.format_spec.values[0], ast.Constant):
                        fail(e, "format spec")
                    spec = v.format_spec.values[0].value
                if v.conversion != -1: fail(e, "conversion")
                parts.append(self.fmt_value(t, ty, spec, e))
            else: fail(e, "fstring part")
        if not parts: return '""%string', STR
        return '(' + ' ++ '.join(parts) + ')%string', STR

    def fmt_value(self, t, ty, spec, node):
        if ty == SCHED: ty = Z
        if spec is None:
            if ty == STR: return t
            if ty == Z: return f'(Z_to_str {paren(t)})'
            if ty == opt(Z): return f'(match {t} with Some x_ => Z_to_str x_ | None => "None"%string end)'
            fail(node, f"format of {ty}")
        if len(spec) == 3 and spec[0] == '0' and spec[1].isdigit() and spec[2] == 'x' and ty == Z:
            return f'(fmt_x {spec[1]} {paren(t)})'
        fail(node, f"format spec {spec!r}")

    def e_Attribute(self, e, env, pre):
        # Enum members
        if isinstance(e.value, ast.Name) and e.value.id in self.mod.enums:
            members = self.mod.enums[e.value.id]
            if e.attr in members: return zlit(members[e.attr]), SCHED if e.value.id == 'ScheduleType' else Z
        if isinstance(e.value, ast.Name) and e.value.id == 'self' and self.self_type is not None:
            key = 'self.' + e.attr
            if key in env: return env[key]
            fields = self.mod.records[self.self_type]
            if e.attr in fields:
                proj, ty = fields[e.attr]
                return f'({proj} self)', ty
            fail(e, f"unknown field {e.attr} of {self.self_type}")
        v, tv = self.expr(e.value, env, pre)
        if tv == SCHED and e.attr == 'value': return v, Z
        if tv == DATE and e.attr in ('year', 'month', 'day', 'hour', 'minute', 'second'):
            return f'(d_{e.attr} {paren(v)})', Z
        fail(e, f"attribute {e.attr} of {tv}")

    def kw(self, call, name, pos=None, default=None):
        for k in call.keywords:
            if k.arg == name: return k.value
        if pos is not None and len(call.args) > pos: return call.args[pos]
        return default

    def const_of(self, node, allowed):
        if isinstance(node, ast.Constant) and node.value in allowed: return node.value
        fail(node, f"expected constant in {allowed}")

    def e_Call(self, e, env, pre):
        f = e.func
        # ---- builtins by name
        if isinstance(f, ast.Name):
            n = f.id
            if n == 'len':
                t, ty = self.expr(e.args[0], env, pre)
                if ty == STR: return f'(slen {paren(t)})', Z
                if ty == BYTES or (isinstance(ty, tuple) and ty[0] == 'list'): return f'(blen {paren(t)})', Z
                fail(e, f"len of {ty}")
            if n == 'bytearray' or n == 'bytes':
                t, ty = self.expr(e.args[0], env, pre)
                if ty == Z and n == 'bytearray': return f'(bytearray {paren(t)})', BYTES
                if ty == BYTES: return t, BYTES
                if ty == lst(Z): return self.bindm(pre, f'py_bytes_of_list {paren(t)}'), BYTES
                fail(e, f"{n} of {ty}")
            if n == 'int':
                t, ty = self.expr(e.args[0], env, pre)
                base = self.kw(e, 'base', 1)
                if ty == STR:
                    b = '10'
                    if base is not None:
                        b, tb = self.expr(base, env, pre)
                    return self.bindm(pre, f'int_of_str {paren(t)} {paren(b)}'), Z
                if ty == Z or ty == SCHED: return t, Z
                if ty == FLOAT: return self.bindm(pre, f'py_int_of_float {paren(t)}'), Z
                if ty == VAL: return self.bindm(pre, f'val_int {paren(t)}'), Z
                fail(e, f"int of {ty}")
            if n == 'float':
                t, ty = self.expr(e.args[0], env, pre)
                if ty == Z: return f'(float_of_Z {paren(t)})', FLOAT
                if ty == FLOAT: return t, FLOAT
                if ty == VAL: return self.bindm(pre, f'val_float {paren(t)}'), FLOAT
                fail(e, f"float of {ty}")
            if n in ('abs', 'round'):
                t, ty = self.expr(e.args[0], env, pre)
                if n == 'abs' and ty == Z: return f'(Z.abs {paren(t)})', Z
                if n == 'abs' and ty == FLOAT: return f'(PrimFloat.abs {paren(t)})', FLOAT
                if n == 'round' and len(e.args) == 2:
                    nd = self.const_of(e.args[1], (3,))
                    ft = t if ty == FLOAT else None
                    if ty == FLOAT: return f'(py_round3 {paren(t)})', FLOAT
                    if ty == VAL: return self.bindm(pre, f'val_round3 {paren(t)}'), VAL
                    fail(e, "round(x, 3) operand")
                if n == 'round' and ty == Z: return t, Z
                if n == 'round' and ty == FLOAT: return self.bindm(pre, f'py_round {paren(t)}'), Z
                vt = coerce(t, ty, VAL, e)
                return self.bindm(pre, f'val_{n} {paren(vt)}'), VAL
            if n in ('max', 'min'):
                a, ta = self.expr(e.args[0], env, pre)
                b, tb = self.expr(e.args[1], env, pre)
                if len(e.args) != 2: fail(e, "max/min arity")
                if ta == Z and tb == Z: return f'(Z.{n} {paren(a)} {paren(b)})', Z
                va, vb = coerce(a, ta, VAL, e), coerce(b, tb, VAL, e)
                return self.bindm(pre, f'val_{n} {paren(va)} {paren(vb)}'), VAL
            if n == 'bin':
                t, ty = self.expr(e.args[0], env, pre)
                if ty != Z: fail(e, "bin")
                return f'(py_bin {paren(t)})', STR
            if n in ('list', 'tuple'):
                t, ty = self.expr(e.args[0], env, pre)
                if isinstance(ty, tuple) and ty[0] == 'list': return t, ty
                fail(e, "list()")
            if n == 'range':
                args = [self.expr(a, env, pre) for a in e.args]
                if any(ty != Z for _, ty in args): fail(e, "range args")
                if len(args) == 1: return f'(py_range 0 {paren(args[0][0])})', lst(Z)
                if len(args) == 2: return f'(py_range {paren(args[0][0])} {paren(args[1][0])})', lst(Z)
                if len(args) == 3 and isinstance(e.args[2], ast.UnaryOp) and ast.literal_eval(e.args[2]) == -1:
                    return f'(py_range_down {paren(args[0][0])} {paren(args[1][0])})', lst(Z)
                fail(e, "range step")
            if n == 'datetime':
                parts = []
                for nm in ('year', 'month', 'day', 'hour', 'minute', 'second'):
                    node = self.kw(e, nm)
                    if node is None: fail(e, "datetime needs keyword args")
                    t, ty = self.expr(node, env, pre)
                    if ty != Z: fail(e, "datetime arg")
                    parts.append(paren(t))
                return self.bindm(pre, 'py_datetime ' + ' '.join(parts)), DATE
            if n == 'unpack':
                fmt = self.const_of(e.args[0], ('>f',))
                t, ty = self.expr(e.args[1], env, pre)
                return self.bindm(pre, f'py_unpack_f {paren(t)}'), lst(FLOAT)
            if n in self.mod.sigs:
                return self.call_sig(self.mod.sigs[n], e.args, e.keywords, env, pre, e)
            if n in self.mod.funcs:
                translate_pending(self.mod, n)
                return self.call_sig(self.mod.sigs[n], e.args, e.keywords, env, pre, e)
            if n in self.mod.hooks:
                return self.mod.hooks[n](self, e, env, pre)
            fail(e, f"unknown function {n}")
        # ---- attribute calls
        if isinstance(f, ast.Attribute):
            # int.from_bytes / int.to_bytes / bytes.fromhex
            if isinstance(f.value, ast.Name) and f.value.id == 'int' and f.attr == 'from_bytes':
                t, ty = self.expr(e.args[0], env, pre)
                bo = self.kw(e, 'byteorder', 1)
                self.const_of(bo, ('big',))
                sg = self.kw(e, 'signed', None, ast.Constant(False))
                sgv = self.const_of(sg, (True, False))
                if ty != BYTES: fail(e, "from_bytes arg")
                return f'(from_bytes_big {paren(t)} {"true" if sgv else "false"})', Z
            if isinstance(f.value, ast.Name) and f.value.id == 'int' and f.attr == 'to_bytes':
                t, ty = self.expr(e.args[0], env, pre)
                return self.to_bytes(e, t, ty, 1, env, pre)
            if f.attr == 'to_bytes':
                t, ty = self.expr(f.value, env, pre)
                return self.to_bytes(e, t, ty, 0, env, pre)
            if isinstance(f.value, ast.Name) and f.value.id == 'bytes' and f.attr == 'fromhex':
                t, ty = self.expr(e.args[0], env, pre)
                if ty != STR: fail(e, "fromhex arg")
                return self.bindm(pre, f'fromhex {paren(t)}'), BYTES
            if isinstance(f.value, ast.Constant) and isinstance(f.value.value, str) and f.attr == 'format':
                return self.str_format(f.value.value, e, env, pre)
            if isinstance(f.value, ast.Constant) and isinstance(f.value.value, str) and f.attr == 'join':
                t, ty = self.expr(e.args[0], env, pre)
                if ty != lst(STR): fail(e, "join arg")
                return f'(str_join {strlit(f.value.value)} {paren(t)})', STR
            # classmethod / staticmethod calls on known classes, and self.method(...)
            if isinstance(f.value, ast.Name) and (f.value.id in self.mod.classes or f.value.id == 'self'):
                cls = f.value.id if f.value.id != 'self' else self.owner
                key = self.resolve_method(cls, f.attr)
                if key:
                    sig = self.mod.sigs[key]
                    args = list(e.args)
                    if f.value.id == 'self' and sig.params and sig.params[0][0] == 'self':
                        return self.call_sig(sig, [ast.Name('self')] + args, e.keywords, env, pre, e)
                    return self.call_sig(sig, args, e.keywords, env, pre, e)
            v, tv = self.expr(f.value, env, pre)
            if f.attr == 'hex' and tv == BYTES: return f'(hex_of_bytes {paren(v)})', STR
            if f.attr == 'endswith' and tv == STR:
                a, ta = self.expr(e.args[0], env, pre); return f'(endswith {paren(v)} {paren(a)})', BOOL
            if f.attr == 'startswith' and tv == STR:
                a, ta = self.expr(e.args[0], env, pre); return f'(startswith {paren(v)} {paren(a)})', BOOL
            if f.attr == 'get' and isinstance(tv, tuple) and tv[0] == 'dict':
                k, tk = self.expr(e.args[0], env, pre)
                if is_opt(tk) and tk[1] == Z:
                    g = f'(match {k} with Some k_ => dict_get {paren(v)} k_ | None => None end)'
                elif tk == Z: g = f'(dict_get {paren(v)} {paren(k)})'
                elif tk == VAL: g = f'(val_dict_get {paren(v)} {paren(k)})'
                else: fail(e, f"dict key {tk}")
                if len(e.args) == 2:
                    d, td = self.expr(e.args[1], env, pre)
                    if td != tv[1]: fail(e, "dict default type")
                    return f'(opt_default {g} {paren(d)})', tv[1]
                return g, opt(tv[1])
            if tv == SCHED:
                key = self.resolve_method('ScheduleType', f.attr)
                if key:
                    return self.call_sig(self.mod.sigs[key], [f.value] + list(e.args), e.keywords, env, pre, e,
                                         first_term=(v, tv))
            fail(e, f"method {f.attr} on {tv}")
        fail(e, "call")

    def resolve_method(self, cls, name):
        seen = set()
        todo = [cls]
        while todo:
            c = todo.pop(0)
            if c in seen or c not in self.mod.classes: continue
            seen.add(c)
            key = f'{c}.{name}'
            if key in self.mod.funcs: translate_pending(self.mod, key)
            if key in self.mod.sigs: return key
            for b in self.mod.classes[c].bases:
                if isinstance(b, ast.Name): todo.append(b.id)
        return None

    def to_bytes(self, e, t, ty, pos0, env, pre):
        if ty != Z: fail(e, "to_bytes of non-int")
        ln = self.kw(e, 'length', pos0)
        lt, lty = self.expr(ln, env, pre)
        self.const_of(self.kw(e, 'byteorder', pos0 + 1), ('big',))
        sgv = self.const_of(self.kw(e, 'signed', None, ast.Constant(False)), (True, False))
        return self.bindm(pre, f'to_bytes_big {paren(t)} {paren(lt)} {"true" if sgv else "false"}'), BYTES

    def str_format(self, fmt, e, env, pre):
        import string as _s
        parts = []
        args = [self.expr(a, env, pre) for a in e.args]
        i = 0
        for lit, field, spec, conv in _s.Formatter().parse(fmt):
            if lit: parts.append(strlit(lit))
            if field is None: continue
            if field != '' or conv: fail(e, "format field")
            t, ty = args[i]; i += 1
            parts.append(self.fmt_value(t, ty, spec or None, e))
        if i != len(args): fail(e, "format arity")
        return '(' + ' ++ '.join(parts) + ')%string', STR

    def call_sig(self, sig: Sig, args, keywords, env, pre, node, first_term=None):
        params = sig.params
        bound = {}
        for i, a in enumerate(args):
            if i >= len(params): fail(node, "too many args")
            bound[params[i][0]] = a
        for k in keywords:
            if k.arg not in dict(params) or k.arg in bound: fail(node, f"bad keyword {k.arg}")
            bound[k.arg] = k.value
        terms = []
        state_out = []
        for idx, (pn, pt) in enumerate(params):
            if pn in bound:
                if idx == 0 and first_term is not None: t, ty = first_term
                else: t, ty = self.expr(bound[pn], env, pre)
                terms.append(paren(coerce(t, ty, pt, node)))
                if pn in sig.state:
                    a = bound[pn]
                    if not isinstance(a, ast.Name): fail(node, "state argument must be a variable")
                    state_out.append(a.id)
            elif pn in sig.globals_ and pn in env:
                terms.append(env[pn][0])
                state_out.append(pn)
            elif pn in sig.defaults:
                t, ty = sig.defaults[pn]
                terms.append(paren(coerce(t, ty, pt, node)))
            else:
                fail(node, f"missing argument {pn}")
        call = sig.coqname + ''.join(' ' + t for t in terms)
        if not sig.state:
            if sig.pure: return f'({call})' if terms else call, sig.rtype
            return self.bindm(pre, call), sig.rtype
        # stateful callee: rebind the state variables
        r = self.fresh('r')
        news = []
        for s in state_out:
            nv = self.fresh(s if s != 'self' else 'self')
            news.append(nv)
        pat = '(' + ', '.join([r] + news) + ')'
        pre.append((pat, ('M', call) if not sig.pure else ('L', f'({call})')))
        for s, nv in zip(state_out, news):
            env[s] = (nv, env[s][1])
            self.on_rebind(s, env)
        return r, sig.rtype

    def on_rebind(self, name, env):
        if name == 'self':
            for k in [k for k in env if k.startswith('self.')]:
                del env[k]

    def e_Lambda(self, e, env, pre):
        fail(e, "lambda outside a supported context")

    # ---- statements (CPS; k : env -> ir)
    def stmts(self, body, env, k):
        if not body: return k(env)
        s, rest = body[0], body[1:]
        kr = lambda env2: self.stmts(rest, env2, k)
        m = getattr(self, 's_' + type(s).__name__, None)
        if m is None: fail(s, "unsupported statement")
        return m(s, env, kr)

    def s_Pass(self, s, env, k): return k(env)

    def s_Global(self, s, env, k): return k(env)

    def s_Expr(self, s, env, k):
        v = s.value
        if isinstance(v, ast.Constant) and isinstance(v.value, str): return k(env)   # docstring
        if isinstance(v, ast.Call) and isinstance(v.func, ast.Attribute):
            f = v.func
            if isinstance(f.value, ast.Name) and f.value.id == 'logger': return k(env)  # logging dropped
            if isinstance(f.value, ast.Name) and f.value.id in env:
                name = f.value.id
                t, ty = env[name]
                pre = []
                env = dict(env)
                if ty == BYTES and f.attr == 'append':
                    a, ta = self.expr(v.args[0], env, pre)
                    nv = self.bindm(pre, f'py_append {paren(t)} {paren(a)}', name)
                    env[name] = (nv, BYTES)
                    return self.wrap_pre(pre, k(env))
                if ty == BYTES and f.attr == 'extend':
                    a, ta = self.expr(v.args[0], env, pre)
                    if ta != BYTES: fail(s, "extend arg")
                    nv = self.fresh(name); pre.append((nv, ('L', f'({t} ++ {a})')))
                    env[name] = (nv, BYTES)
                    return self.wrap_pre(pre, k(env))
                if isinstance(ty, tuple) and ty[0] == 'list' and f.attr == 'append':
                    a, ta = self.expr(v.args[0], env, pre)
                    if ty[1] is None: ty = lst(ta)
                    nv = self.fresh(name); pre.append((nv, ('L', f'({t} ++ [{coerce(a, ta, ty[1], s)}])')))
                    env[name] = (nv, ty)
                    return self.wrap_pre(pre, k(env))
                if isinstance(ty, tuple) and ty[0] == 'list' and f.attr == 'pop' and \
                        len(v.args) == 1 and isinstance(v.args[0], ast.Constant) and v.args[0].value == 0:
                    x = self.fresh('x'); nv = self.fresh(name)
                    pre.append((f'({x}, {nv})', ('M', f'py_pop0 {paren(t)}')))
                    env[name] = (nv, ty)
                    return self.wrap_pre(pre, k(env))
                if ty == BUF and f.attr == 'seek':
                    a, ta = self.expr(v.args[0], env, pre)
                    nv = self.bindm(pre, f'buf_seek {paren(t)} {paren(a)}', name)
                    env[name] = (nv, BUF)
                    return self.wrap_pre(pre, k(env))
        # a call evaluated for its effects / exceptions only
        if isinstance(v, ast.Call):
            pre = []
            env = dict(env)
            self.expr(v, env, pre)
            return self.wrap_pre(pre, k(env))
        fail(s, "expression statement")

    def assign_to(self, target, t, ty, env, pre, node):
        if isinstance(target, ast.Name):
            if target.id in self.globals_ and target.id not in env:
                fail(node, "global not in env")
            nv = self.fresh(target.id)
            pre.append((nv, ('L', t)))
            env[target.id] = (nv, ty)
            return
        if isinstance(target, ast.Subscript) and isinstance(target.value, ast.Name):
            name = target.value.id
            bt, bty = env[name]
            if bty != BYTES: fail(node, "item assignment on non-bytearray")
            i, ti = self.expr(target.slice, env, pre)
            if ty != Z: fail(node, "item value")
            nv = self.bindm(pre, f'py_setitem {paren(bt)} {paren(i)} {paren(t)}', name)
            env[name] = (nv, BYTES)
            return
        if isinstance(target, ast.Attribute) and isinstance(target.value, ast.Name) and target.value.id == 'self' \
                and self.self_type is not None:
            fields = self.mod.records[self.self_type]
            if target.attr not in fields: fail(node, f"unknown field {target.attr}")
            proj, fty = fields[target.attr]
            setter = 'set_' + proj
            st, sty = env['self']
            lv = self.fresh('v')
            pre.append((lv, ('L', t)))
            nv = self.fresh('self')
            pre.append((nv, ('L', f'({setter} {st} {paren(coerce(lv, ty, fty, node))})')))
            env['self'] = (nv, sty)
            env['self.' + target.attr] = (lv, ty)
            return
        fail(node, "assignment target")

    def s_Assign(self, s, env, k):
        if len(s.targets) != 1: fail(s, "multiple targets")
        pre = []
        env = dict(env)
        t, ty = self.expr(s.value, env, pre)
        self.assign_to(s.targets[0], t, ty, env, pre, s)
        return self.wrap_pre(pre, k(env))

    def s_AnnAssign(self, s, env, k):
        if s.value is None: return k(env)
        pre = []
        env = dict(env)
        t, ty = self.expr(s.value, env, pre)
        self.assign_to(s.target, t, ty, env, pre, s)
        return self.wrap_pre(pre, k(env))

    def s_AugAssign(self, s, env, k):
        load = ast.copy_location(ast.BinOp(left=to_load(s.target), op=s.op, right=s.value), s)
        pre = []
        env = dict(env)
        t, ty = self.expr(load, env, pre)
        self.assign_to(s.target, t, ty, env, pre, s)
        return self.wrap_pre(pre, k(env))

    def s_Return(self, s, env, k):
        pre = []
        env = dict(env)
        if s.value is None: t, ty = 'None', NONE
        else: t, ty = self.expr(s.value, env, pre)
        return self.wrap_pre(pre, ('ret', (t, env), ty))

    def s_Raise(self, s, env, k):
        exc = s.exc
        pre = []
        env = dict(env)
        name = exc.func.id if isinstance(exc, ast.Call) else exc.id if isinstance(exc, ast.Name) else None
        args = exc.args if isinstance(exc, ast.Call) else []
        if name == 'ValueError': term = 'EValue'
        elif name == 'NotImplementedError': term = 'ENotImpl'
        elif name == 'PartialResponseException':
            a, _ = self.expr(args[0], env, pre); b, _ = self.expr(args[1], env, pre)
            term = f'EPartial {paren(a)} {paren(b)}'
        elif name == 'RequestRejectedException':
            if args:
                a, ta = self.expr(args[0], env, pre)
                if ta != STR: fail(s, "rejected message")
            else: a = '""%string'
            term = f'ERejected {paren(a)}'
        else: fail(s, f"raise {name}")
        # arguments of ValueError(...) messages are evaluated but not kept (f-strings over ints cannot raise)
        return self.wrap_pre(pre, ('raise', term, env))

    def s_If(self, s, env, k):
        nar = self.narrow_test(s.test, env)
        if nar:
            name, positive = nar
            t0, ty0 = env[name]
            v = self.fresh(name)
            env_some = dict(env); env_some[name] = (v, ty0[1])
            body_some, body_none = (s.body, s.orelse) if positive else (s.orelse, s.body)
            # after the if, the variable keeps its optional type unless reassigned
            def k_some(e2):
                e3 = dict(e2)
                if e3.get(name) == (v, ty0[1]): e3[name] = (t0, ty0)
                return k(e3)
            return ('matchopt', t0, v, self.stmts(body_some, env_some, k_some), self.stmts(body_none, dict(env), k))
        pre = []
        env = dict(env)
        c, tc = self.expr(s.test, env, pre)
        c = self.truthy(c, tc, s)
        return self.wrap_pre(pre, ('if', c, self.stmts(s.body, dict(env), k), self.stmts(s.orelse, dict(env), k)))

    def assigned_names(self, body):
        names = []
        for n in ast.walk(ast.Module(body=body, type_ignores=[])):
            tgt = None
            if isinstance(n, (ast.Assign,)): tgts = n.targets
            elif isinstance(n, (ast.AugAssign, ast.AnnAssign)): tgts = [n.target]
            elif isinstance(n, ast.Expr) and isinstance(n.value, ast.Call) and isinstance(n.value.func, ast.Attribute) \
                    and isinstance(n.value.func.value, ast.Name) and n.value.func.attr in ('append', 'extend', 'pop', 'seek'):
                tgts = [n.value.func.value]
            else: continue
            for t in tgts:
                if isinstance(t, ast.Name) and t.id not in names: names.append(t.id)
                if isinstance(t, ast.Subscript) and isinstance(t.value, ast.Name) and t.value.id not in names:
                    names.append(t.value.id)
            if isinstance(n, ast.Return): fail(n, "return inside loop")
        for n in ast.walk(ast.Module(body=body, type_ignores=[])):
            if isinstance(n, (ast.Return, ast.Break, ast.Continue, ast.While)): fail(n, "control flow inside loop")
        return names

    def s_For(self, s, env, k):
        if s.orelse: fail(s, "for-else")
        if not isinstance(s.target, ast.Name): fail(s, "loop target")
        pre = []
        env = dict(env)
        it, tit = self.expr(s.iter, env, pre)
        if tit == BYTES or tit == lst(Z): elem, seq = Z, it
        elif tit == STR: elem, seq = STR, f'(str_chars {paren(it)})'
        elif isinstance(tit, tuple) and tit[0] == 'list': elem, seq = tit[1], it
        else: fail(s, f"iteration over {tit}")
        carried = [n for n in self.assigned_names(s.body) if n in env and n != s.target.id]
        if not carried: fail(s, "loop without carried state")
        x = self.fresh(s.target.id)
        benv = dict(env)
        svars = [self.fresh(n) for n in carried]
        for n, sv in zip(carried, svars): benv[n] = (sv, env[n][1])
        benv[s.target.id] = (x, elem)
        refined = {}
        def kend(e2):
            tys = [e2[n][1] for n in carried]
            for n, ty in zip(carried, tys):
                if env[n][1] == lst(None) and isinstance(ty, tuple) and ty[0] == 'list':
                    refined[n] = ty
                elif ty != env[n][1]: fail(s, f"loop variable {n} changes type {env[n][1]} -> {ty}")
            return ('ret', ('(' + ', '.join(e2[n][0] for n in carried) + ')' if len(carried) > 1 else e2[carried[0]][0], None), 'state')
        body_ir = self.stmts(s.body, benv, kend)
        pure = ir_pure(body_ir)
        spat = '(' + ', '.join(svars) + ')' if len(svars) > 1 else svars[0]
        body_txt = ir_print(body_ir, pure, None, lambda t, ty: t[0], 6)
        init = '(' + ', '.join(env[n][0] for n in carried) + ')' if len(carried) > 1 else env[carried[0]][0]
        outs = [self.fresh(n) for n in carried]
        opat = '(' + ', '.join(outs) + ')' if len(outs) > 1 else outs[0]
        sfun = f"(fun {x} '{spat} =>\n{body_txt})" if len(svars) > 1 else f"(fun {x} {spat} =>\n{body_txt})"
        if pure:
            sfun2 = f"(fun '{spat} {x} =>\n{body_txt})" if len(svars) > 1 else f"(fun {spat} {x} =>\n{body_txt})"
            pre.append((opat, ('L', f'fold_left {sfun2} {paren(seq)} {init}')))
        else:
            pre.append((opat, ('M', f'py_for {paren(seq)} {sfun} {init}')))
        for n, o in zip(carried, outs): env[n] = (o, refined.get(n, env[n][1]))
        return self.wrap_pre(pre, k(env))


def to_load(t):
    if isinstance(t, ast.Name): return ast.copy_location(ast.Name(id=t.id, ctx=ast.Load()), t)
    if isinstance(t, ast.Subscript): return ast.copy_location(ast.Subscript(value=t.value, slice=t.slice, ctx=ast.Load()), t)
    if isinstance(t, ast.Attribute): return ast.copy_location(ast.Attribute(value=t.value, attr=t.attr, ctx=ast.Load()), t)
    fail(t, "augassign target")


def float_lit(v):
    import struct
    if v != v or v in (float('inf'), float('-inf')): raise Unsupported("non finite float literal")
    m, e = v.hex().split('p')
    return f'{m}p{e}'


# ----------------------------------------------------------------------------- driver helpers
ANN = {'int': Z, 'bool': BOOL, 'bytes': BYTES, 'str': STR, 'float': FLOAT, 'bytearray': BYTES,
       'ProtocolResponse': BUF, 'ScheduleType': SCHED}


def ann_type(a, default=None):
    if a is None:
        if default is not None: return default
        raise Unsupported("missing annotation")
    if isinstance(a, ast.Name) and a.id in ANN: return ANN[a.id]
    if isinstance(a, ast.Constant) and isinstance(a.value, str) and a.value in ANN: return ANN[a.value]
    if isinstance(a, ast.Subscript) and isinstance(a.value, ast.Name):
        if a.value.id == 'Union':
            ts = {ann_type(x) for x in a.slice.elts}
            if len(ts) == 1: return ts.pop()
        if a.value.id == 'Optional': return opt(ann_type(a.slice))
        if a.value.id == 'dict':
            k, v = a.slice.elts
            if ann_type(k) == Z: return dct(ann_type(v))
    if isinstance(a, ast.BinOp) and isinstance(a.op, ast.BitOr):
        l, r = a.left, a.right
        if isinstance(r, ast.Constant) and r.value is None: return opt(ann_type(l))
    if isinstance(a, ast.Name) and a.id == 'Any': return VAL
    if default is not None: return default
    raise Unsupported(f"annotation {ast.dump(a)}")


def translate_function(mod: Module, pyname, node: ast.FunctionDef, coqname=None, owner=None, self_type=None,
                       param_types=None, ret_hint=None):
    coqname = coqname or pyname.replace('.', '_')
    param_types = param_types or {}
    params = []
    defaults = {}
    args = node.args
    all_args = list(args.args)
    dflts = [None] * (len(all_args) - len(args.defaults)) + list(args.defaults)
    is_static = any(isinstance(d, ast.Name) and d.id in ('staticmethod',) for d in node.decorator_list)
    is_classm = any(isinstance(d, ast.Name) and d.id in ('classmethod',) for d in node.decorator_list)
    env = {}
    tmpfn = Fn(mod, pyname, coqname, node, params, owner, self_type=self_type)
    for a, d in zip(all_args, dflts):
        if a.arg == 'cls' and is_classm: continue
        if a.arg == 'self':
            if self_type is None: fail(node, "method without self type")
            ty = ('rec', self_type) if self_type != 'ScheduleType' else SCHED
        elif a.arg in param_types: ty = param_types[a.arg]
        else:
            ty = ann_type(a.annotation)
            if d is not None and isinstance(d, ast.Constant) and d.value is None and not is_opt(ty): ty = opt(ty)
        params.append((a.arg, ty))
        env[a.arg] = (a.arg if a.arg not in ('in', 'end', 'at', 'fun', 'match', 'type') else a.arg + '_', ty)
        if d is not None:
            defaults[a.arg] = tmpfn.expr(d, {}, [])
    # globals threaded as state
    gl = []
    for n in ast.walk(node):
        if isinstance(n, ast.Global): gl += n.names
    for n in ast.walk(node):
        if isinstance(n, ast.Call) and isinstance(n.func, ast.Name):
            if n.func.id in mod.funcs: translate_pending(mod, n.func.id)
            if n.func.id in mod.sigs:
                gl += [g for g in mod.sigs[n.func.id].globals_ if g not in gl]
    for g in gl:
        params.append((g, Z)); env[g] = (g, Z)
    fn = Fn(mod, pyname, coqname, node, params, owner, globals_=gl, self_type=self_type)
    state = [p for p, t in params if t == BUF] + gl
    if self_type is not None and any(
            isinstance(n, ast.Attribute) and isinstance(n.ctx, ast.Store) and isinstance(n.value, ast.Name)
            and n.value.id == 'self' for n in ast.walk(node)):
        state = ['self'] + state
    # calls to stateful-self methods also make this one stateful: handled by caller passing state explicitly
    fall = lambda e2: ('ret', ('None', e2), NONE)
    ir = fn.stmts(node.body, env, fall)
    rts = ir_ret_types(ir, [])
    rtype = None
    for t in rts: rtype = join(rtype, t, node)
    if ret_hint is not None: rtype = ret_hint
    if rtype == NONE: rtype = UNIT
    pure = ir_pure(ir)

    def wrap(tenv, ty):
        t, e2 = tenv
        r = coerce(t, ty, rtype, node)
        if not state: return r
        return '(' + ', '.join([r] + [e2[s][0] for s in state]) + ')'
    # raising paths of a stateful-self function lose the state in the res monad; mutable classes need it,
    # so for them the raise keeps the state: encoded as Ok (inr ...)?  -> handled by state_exc flag
    sig = Sig(pyname, coqname, params, rtype, pure, state, defaults)
    sig.globals_ = gl
    full = sig.full_rtype()
    ptxt = ''.join(f' ({env[p][0]} : {coq_type(t)})' for p, t in params)
    body = ir_print_state(ir, pure, rtype, wrap, state, mod, self_type)
    rt = coq_type(full) if pure else f'res {coq_type(full)}'
    mod.emit(f'Definition {coqname}{ptxt} : {rt} :=\n{body}.\n')
    mod.sigs[pyname] = sig
    return sig


def ir_print_state(ir, pure, rtype, wrap, state, mod, self_type):
    return ir_print(ir, pure, rtype, wrap)


def translate_pending(mod: Module, key):
    if key in mod.sigs: return
    if key not in mod.funcs: raise Unsupported(f"unknown function {key}")
    spec = mod.funcs.pop(key)
    mod.in_progress = getattr(mod, 'in_progress', [])
    if key in mod.in_progress: raise Unsupported(f"recursive function {key}")
    mod.in_progress.append(key)
    # emit into a side buffer so that callees come first
    saved = mod.out
    mod.out = []
    try:
        spec(mod)
    finally:
        mod.in_progress.remove(key)
    buf = mod.out
    mod.out = saved + buf


def const_value(mod: Module, fn: Fn, node):
    """module level constant: ints, strings, tuples of strings, dict literals int -> str"""
    if isinstance(node, ast.Dict):
        items = []
        vt = None
        for kk, vv in zip(node.keys, node.values):
            k, tk = fn.expr(kk, {}, [])
            v, tv = fn.expr(vv, {}, [])
            if tk != Z: fail(node, "dict key")
            vt = join(vt, tv, node)
            items.append(f'({k}, {v})')
        return '[' + '; '.join(items) + ']', dct(vt or STR)
    pre = []
    t, ty = fn.expr(node, {}, pre)
    if pre: fail(node, "raising module constant")
    return t, ty

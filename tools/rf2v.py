#!/usr/bin/env python3
"""Translates Inverter._read_from_socket (goodwe/inverter.py) and the class hierarchy of goodwe/exceptions.py into the shape language of
coq/Model/InvProg.v -> coq/Gen/InverterGen.v.  Fail-closed: the method must be one try statement `result = await command.execute(self._protocol);
<counter steps>; return result` with handlers `except <Class> [as ex]: <counter steps>; raise RequestFailedException(<message>,
self._consecutive_failures_count) from None`; nothing else in the package may assign the counter or override the method."""
from __future__ import annotations
import ast, os, sys, glob

REPO = os.environ.get('GOODWE_REPO', '/repo')
CLASSES = {'InverterError': 'IInverterError', 'RequestFailedException': 'IRequestFailed', 'RequestRejectedException': 'IRequestRejected',
           'PartialResponseException': 'IPartial', 'MaxRetriesException': 'IMaxRetries'}
COUNTER = '_consecutive_failures_count'


class Unsupported(Exception):
    pass


def fail(node, msg):
    raise Unsupported(f"rf2v: {msg}: {ast.unparse(node)[:200]} (line {getattr(node, 'lineno', '?')})")


def is_log(n):
    return (isinstance(n, ast.Expr) and isinstance(n.value, ast.Call) and isinstance(n.value.func, ast.Attribute)
            and isinstance(n.value.func.value, ast.Name) and n.value.func.value.id == 'logger')


def cstep(n):
    src = ast.unparse(n)
    if src == f'self.{COUNTER} = 0': return 'CZero'
    if src == f'self.{COUNTER} += 1': return 'CInc'
    fail(n, 'counter step not understood')


def hierarchy():
    tree = ast.parse(open(os.path.join(REPO, 'goodwe', 'exceptions.py')).read(), 'exceptions.py')
    bases = {}
    for c in tree.body:
        if isinstance(c, ast.ClassDef):
            if c.decorator_list or c.keywords: fail(c, 'decorated / metaclass exception class')
            bases[c.name] = [ast.unparse(b) for b in c.bases]
    if set(bases) != set(CLASSES): raise Unsupported(f'rf2v: exception classes of exceptions.py are {sorted(bases)}')
    anc = {}
    def up(c, seen=()):
        out = []
        for b in bases.get(c, []):
            if b in bases:
                if b in seen: raise Unsupported('rf2v: cyclic hierarchy')
                out += [b] + up(b, seen + (b,))
            elif b != 'Exception': raise Unsupported(f'rf2v: {c} derives from {b}')
        return out
    for c in bases: anc[c] = sorted(set(up(c)))
    # the constructor of RequestFailedException stores its second argument as consecutive_failures_count
    rfe = next(c for c in tree.body if isinstance(c, ast.ClassDef) and c.name == 'RequestFailedException')
    init = [n for n in rfe.body if isinstance(n, ast.FunctionDef) and n.name == '__init__']
    if len(init) != 1 or [a.arg for a in init[0].args.args] != ['self', 'message', 'consecutive_failures_count']:
        fail(rfe, 'RequestFailedException.__init__ signature')
    body = [ast.unparse(n) for n in init[0].body if not (isinstance(n, ast.Expr) and isinstance(n.value, ast.Constant))]
    if 'self.consecutive_failures_count: int = consecutive_failures_count' not in body or any('consecutive_failures_count' in b and b !=
            'self.consecutive_failures_count: int = consecutive_failures_count' for b in body):
        fail(init[0], 'RequestFailedException.__init__ does not store consecutive_failures_count as given')
    others = [n for n in rfe.body if isinstance(n, (ast.FunctionDef, ast.AsyncFunctionDef)) and n.name != '__init__']
    if others: fail(others[0], 'RequestFailedException has further methods')
    return anc


def generate():
    anc = hierarchy()
    tree = ast.parse(open(os.path.join(REPO, 'goodwe', 'inverter.py')).read(), 'inverter.py')
    cls = next(c for c in tree.body if isinstance(c, ast.ClassDef) and c.name == 'Inverter')
    fns = [n for n in cls.body if isinstance(n, (ast.FunctionDef, ast.AsyncFunctionDef)) and n.name == '_read_from_socket']
    if len(fns) != 1 or not isinstance(fns[0], ast.AsyncFunctionDef) or fns[0].decorator_list or [a.arg for a in fns[0].args.args] != ['self', 'command']:
        raise Unsupported('rf2v: Inverter._read_from_socket signature')
    body = [n for n in fns[0].body if not (isinstance(n, ast.Expr) and isinstance(n.value, ast.Constant)) and not is_log(n)]
    if len(body) != 1 or not isinstance(body[0], ast.Try) or body[0].orelse or body[0].finalbody: fail(fns[0], '_read_from_socket is not one try statement')
    tr = body[0]
    tb = [n for n in tr.body if not is_log(n)]
    if len(tb) < 2 or ast.unparse(tb[0]) != 'result = await command.execute(self._protocol)' or ast.unparse(tb[-1]) != 'return result':
        fail(tr, 'try body is not `result = await command.execute(self._protocol)` ... `return result`')
    success = [cstep(n) for n in tb[1:-1]]
    handlers = []
    for h in tr.handlers:
        if h.type is None or not isinstance(h.type, ast.Name) or h.type.id not in CLASSES: fail(h, 'handler class not understood')
        hb = [n for n in h.body if not is_log(n)]
        if not hb or not isinstance(hb[-1], ast.Raise): fail(h, 'handler does not end with raise')
        r = hb[-1]
        ok = (isinstance(r.exc, ast.Call) and ast.unparse(r.exc.func) == 'RequestFailedException' and len(r.exc.args) == 2 and not r.exc.keywords
              and ast.unparse(r.exc.args[1]) == f'self.{COUNTER}' and isinstance(r.cause, ast.Constant) and r.cause.value is None)
        if not ok: fail(r, 'handler does not `raise RequestFailedException(<message>, self._consecutive_failures_count) from None`')
        # the message expression must not touch the counter
        if COUNTER in ast.unparse(r.exc.args[0]): fail(r, 'message uses the counter')
        handlers.append(f'({CLASSES[h.type.id]}, [{"; ".join(cstep(n) for n in hb[:-1])}])')
    # the counter is assigned only in Inverter.__init__ (to 0) and in _read_from_socket; no class overrides _read_from_socket
    for path in sorted(glob.glob(os.path.join(REPO, 'goodwe', '*.py'))):
        t = ast.parse(open(path).read(), path)
        for c in ast.walk(t):
            if isinstance(c, ast.ClassDef):
                for n in c.body:
                    if isinstance(n, (ast.FunctionDef, ast.AsyncFunctionDef)) and n.name == '_read_from_socket' and not (c.name == 'Inverter' and path.endswith('inverter.py')):
                        fail(n, f'{c.name} overrides _read_from_socket')
        for fn in ast.walk(t):
            if not isinstance(fn, (ast.FunctionDef, ast.AsyncFunctionDef)): continue
            for x in ast.walk(fn):
                tg = x.targets if isinstance(x, ast.Assign) else [x.target] if isinstance(x, (ast.AugAssign, ast.AnnAssign)) else []
                for tgt in tg:
                    if isinstance(tgt, ast.Attribute) and tgt.attr == COUNTER:
                        where = (os.path.basename(path), fn.name)
                        if where == ('inverter.py', '_read_from_socket'): continue
                        if where == ('inverter.py', '__init__') and ast.unparse(x) in (f'self.{COUNTER}: int = 0', f'self.{COUNTER} = 0'): continue
                        fail(x, f'{where[0]}:{where[1]} assigns the failure counter')
            for x in ast.walk(fn):
                if isinstance(x, ast.Call) and ast.unparse(x.func) in ('setattr', 'delattr'): fail(x, 'setattr/delattr in the package')
    out = ["(* GENERATED by tools/rf2v.py from goodwe/inverter.py and goodwe/exceptions.py -- do not edit.  Regenerated on every check run. *)",
           "From Coq Require Import List.", "From GW Require Import InvProg.", "Import ListNotations.", ""]
    out.append("Definition exn_ancestors (c : iexn) : list iexn :=\n  match c with\n" +
               ''.join(f"  | {CLASSES[c]} => [{'; '.join(CLASSES[a] for a in anc[c])}]\n" for c in CLASSES) + "  | IOther => []\n  end.\n")
    # _map_response: for sensor in sensors: try: result[sensor.id_] = sensor.read(response) except <classes>: result[sensor.id_] = None; return result
    mr = [n for n in cls.body if isinstance(n, ast.FunctionDef) and n.name == '_map_response']
    if len(mr) != 1 or [a.arg for a in mr[0].args.args] != ['response', 'sensors'] or [ast.unparse(d) for d in mr[0].decorator_list] != ['staticmethod']:
        raise Unsupported('rf2v: Inverter._map_response signature')
    mb = [n for n in mr[0].body if not (isinstance(n, ast.Expr) and isinstance(n.value, ast.Constant))]
    okshape = (len(mb) == 3 and ast.unparse(mb[0]) in ('result = {}', 'result: dict[str, Any] = {}') and ast.unparse(mb[2]) == 'return result'
               and isinstance(mb[1], ast.For) and ast.unparse(mb[1].target) == 'sensor' and ast.unparse(mb[1].iter) == 'sensors' and not mb[1].orelse
               and len(mb[1].body) == 1 and isinstance(mb[1].body[0], ast.Try))
    if not okshape: fail(mr[0], '_map_response is not `result = {}; for sensor in sensors: try ...; return result`')
    tr2 = mb[1].body[0]
    if tr2.orelse or tr2.finalbody or len(tr2.handlers) != 1 or [ast.unparse(n) for n in tr2.body] != ['result[sensor.id_] = sensor.read(response)']:
        fail(tr2, 'the try of _map_response does not store sensor.read(response) under sensor.id_')
    h2 = tr2.handlers[0]
    hb2 = [ast.unparse(n) for n in h2.body if not is_log(n)]
    if hb2 != ['result[sensor.id_] = None']: fail(h2, 'the handler of _map_response does not store None')
    elts = h2.type.elts if isinstance(h2.type, ast.Tuple) else [h2.type] if h2.type is not None else fail(h2, 'bare except')
    PY = {'ValueError': 'PcValueError', 'IndexError': 'PcIndexError', 'OverflowError': 'PcOverflowError', 'KeyError': 'PcKeyError', 'ZeroDivisionError': 'PcZeroDivisionError',
          'TypeError': 'PcTypeError', 'NotImplementedError': 'PcNotImplementedError', 'AttributeError': 'PcAttributeError', 'ArithmeticError': 'PcArithmeticError',
          'LookupError': 'PcLookupError', 'Exception': 'PcException'}
    mcl = []
    for e in elts:
        if ast.unparse(e) not in PY: fail(e, 'exception class of _map_response not understood')
        mcl.append(PY[ast.unparse(e)])
    out.append(f"Definition map_response_catches : list pyclass := [{'; '.join(mcl)}].\n")
    out.append(f"Definition read_from_socket_shape : rfs_shape :=\n  mkRfs [{'; '.join(success)}]\n    [" + ';\n     '.join(handlers) + "].\n")
    return '\n'.join(out) + '\n'


if __name__ == '__main__':
    try:
        sys.stdout.write(generate())
    except Unsupported as ex:
        print('UNSUPPORTED:', ex); sys.exit(3)

#!/bin/sh
# usage: tools/seedall.sh [seed ...]  -- applies every seeded change (or the listed ones) to /repo, runs its property's quick check, reverts;
# writes seeded/RESULTS.tsv: seed, verdict, concrete inputs, obligations (proof / generated model / correspondence) broken
export VERIF_EVIDENCE_DIR=${VERIF_EVIDENCE_DIR:-/tmp/verif-seed-evidence}; mkdir -p "$VERIF_EVIDENCE_DIR"
cd "$(dirname "$0")/.."
seeds="$@"; [ -z "$seeds" ] && seeds=$(ls seeded | grep -E '^C[0-9]+-m[0-9]+$')
out=seeded/RESULTS.tsv; [ $# -eq 0 ] && : > $out
for s in $seeds; do
  prop=$(echo $s | sed 's/-.*//')
  git -C /repo checkout -- . ; git -C /repo apply "$(realpath seeded/$s/patch.diff)" || { echo "$s	patch-failed" >> $out; continue; }
  log=$(./check $prop --tier quick 2>&1); rc=$?
  git -C /repo checkout -- .
  nin=$(echo "$log" | grep -c '^VIOLATION' ); nno=$(echo "$log" | grep '^VIOLATION' | grep -c 'no-failing-input-found')
  th=$(echo "$log" | tail -1 | sed 's/.*theorems \([0-9]*\/[0-9]*\).*/\1/')
  kinds=$(for f in $VERIF_EVIDENCE_DIR/replays/$prop-*.json; do [ -f "$f" ] && python3 -c "import json,sys; d=json.load(open('$f')); print((d.get('stage') or 'obligation')+':'+(d.get('key') or 'broken'))"; done | sort -u | tr '\n' ' ')
  echo "$s	rc=$rc	violations=$nin	without-input=$nno	theorems=$th	$kinds" >> $out
  echo "$s rc=$rc violations=$nin without-input=$nno theorems=$th $kinds"
done
git -C /repo status --short

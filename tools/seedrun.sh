#!/bin/sh
# usage: tools/seedrun.sh Cxx-mK [prop ...]   -- runs the seed against its own property's quick check (or the listed ones)
d=seeded/$1; shift
props="$@"; [ -z "$props" ] && props=$(echo $d | sed 's/.*\/\(C[0-9]*\)-.*/\1/')
tools/seedtest.sh $d/patch.diff $props

#!/bin/sh
# usage: tools/seedtest.sh <patch.diff> <Cxx> [Cyy ...]   -- apply a seeded change to /repo, run the quick checks, undo it
export VERIF_EVIDENCE_DIR=${VERIF_EVIDENCE_DIR:-/tmp/verif-seed-evidence}; mkdir -p "$VERIF_EVIDENCE_DIR"
patch=$(realpath $1); shift
git -C /repo status --short | grep -q . && { echo "/repo not clean"; exit 2; }
git -C /repo apply "$patch" || exit 2
for p in "$@"; do
  ./check $p --tier quick 2>&1 | grep -E "VIOLATION|KNOWN|HOLDS|VIOLATED" | cut -c1-400
done
git -C /repo checkout -- .

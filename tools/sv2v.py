#!/usr/bin/env python3
"""State that inverter objects of one process SHARE, read from the current source -> coq/Gen/SharedGen.v (C20).

1. The read_value bodies of the two self-mutating sensor definition classes (EcoModeV1, Schedule) are translated statement by statement into the
   language of coq/Model/SchedDef.v (`self.f = read_byte(data)`, `if <range condition>: raise ValueError(..)`, schedule type detection, day / month
   decoding, `return self`).  Fail-closed on any other statement or condition.
2. A whole-package scan for state that outlives a call and is reachable from more than one inverter object:
   - classes that assign their own attributes outside __init__ (`self.x = ..` in a method), with the attributes; the table rows (ET / DT / ES) that
     are instances of such classes when the class is a Sensor definition;
   - class-level and module-level bindings to mutable containers; `global` statements; mutable default arguments; decorators other than
     staticmethod / classmethod / abstractmethod (memoisation);
   - every mutation site (attribute store on something that is not `self`, subscript store, call of a mutating container method) whose receiver
     is not provably a fresh object of the current call or per-instance state created fresh in __init__ is emitted as `suspicious_mutations`.
   The Coq side (Proofs/SharedProofs.v) requires these lists to be exactly what the two-object model of Model/TwoObj.v assumes.
"""
from __future__ import annotations
import ast, os, sys, glob, re, importlib

REPO = os.environ.get('GOODWE_REPO', '/repo')
FIELDS = {'start_h': 'FStartH', 'start_m': 'FStartM', 'end_h': 'FEndH', 'end_m': 'FEndM', 'on_off': 'FOnOff', 'day_bits': 'FDayBits',
          'power': 'FPower', 'soc': 'FSoc', 'month_bits': 'FMonthBits'}
MUTATORS = {'append', 'extend', 'update', 'pop', 'popitem', 'clear', 'remove', 'insert', 'setdefault', 'add', 'discard', 'sort', 'reverse',
            '__setitem__', '__setattr__', '__delitem__', 'appendleft', 'popleft', 'write', 'seek', 'truncate'}
OK_DECORATORS = {'staticmethod', 'classmethod', 'abstractmethod'}


class Unsupported(Exception):
    pass


def fail(node, msg):
    raise Unsupported(f"sv2v: {msg}: {ast.unparse(node)[:200]} (line {getattr(node, 'lineno', '?')})")


def q(s): return '"' + s + '"%string'


# ---------------------------------------------------------------- 1. read_value bodies
def cond(test):
    src = ast.unparse(test)
    for f, c in FIELDS.items():
        a = f'self.{f}'
        if src == f'({a} < 0 or {a} > 23) and {a} != 48 and ({a} != -1)': return f'CHourV2 {c}'
        if src == f'({a} < 0 or {a} > 59) and {a} != -1': return f'CMinuteV2 {c}'
        if src == f'({a} < 0 or {a} > 23) and {a} != 48': return f'CHourV1 {c}'
        if src == f'{a} < 0 or {a} > 59' and f in ('start_m', 'end_m'): return f'CMinuteV1 {c}'
    if src == 'self.power < -100 or self.power > 100': return 'CPowerV1'
    if src == 'self.on_off not in (0, -1)': return 'COnOffV1'
    if src == 'not self.schedule_type.is_in_range(self.power)': return 'CPowerRange'
    if src == 'self.soc < 0 or self.soc > 100': return 'CSoc'
    fail(test, 'condition of read_value not understood')


def rv_stmt(n):
    src = ast.unparse(n)
    m = re.fullmatch(r'self\.(\w+) = read_byte\(data\)', src)
    if m and m.group(1) in FIELDS: return f'RvByte {FIELDS[m.group(1)]}'
    m = re.fullmatch(r'self\.(\w+) = read_bytes2_signed\(data\)', src)
    if m and m.group(1) in FIELDS: return f'RvInt2S {FIELDS[m.group(1)]}'
    if src == 'self.schedule_type = ScheduleType.detect_schedule_type(self.on_off)': return 'RvDetectType'
    if src == 'self.days = decode_day_of_week(self.day_bits)': return 'RvDays'
    if src == 'self.months = decode_months(self.month_bits)': return 'RvMonths'
    if src == 'return self': return 'RvReturnSelf'
    if isinstance(n, ast.If) and not n.orelse and len(n.body) == 1 and isinstance(n.body[0], ast.Raise) \
            and isinstance(n.body[0].exc, ast.Call) and ast.unparse(n.body[0].exc.func) == 'ValueError':
        return f'RvRaiseIf ({cond(n.test)})'
    fail(n, 'statement of read_value not understood')


def read_value_prog(cls):
    fns = [n for n in cls.body if isinstance(n, ast.FunctionDef) and n.name == 'read_value']
    if len(fns) != 1 or fns[0].decorator_list or [a.arg for a in fns[0].args.args] != ['self', 'data']: fail(cls, f'{cls.name}.read_value signature')
    body = [n for n in fns[0].body if not (isinstance(n, ast.Expr) and isinstance(n.value, ast.Constant))]
    return '[' + '; '.join(rv_stmt(n) for n in body) + ']'


def helper_check(tree):
    """read_byte / read_bytes2_signed read 1 / 2 bytes big-endian signed at the cursor (offset None); Sensor.read seeks to self.offset first"""
    want = {'read_byte': "return int.from_bytes(buffer.read(1), byteorder='big', signed=True)",
            'read_bytes2_signed': "return int.from_bytes(buffer.read(2), byteorder='big', signed=True)"}
    for n in tree.body:
        if isinstance(n, ast.FunctionDef) and n.name in want:
            body = [x for x in n.body if not (isinstance(x, ast.Expr) and isinstance(x.value, ast.Constant))]
            if len(body) != 2 or ast.unparse(body[0]) != 'if offset is not None:\n    buffer.seek(offset)' or ast.unparse(body[1]) != want[n.name]:
                fail(n, f'{n.name} not understood')
            want.pop(n.name)
    if want: raise Unsupported(f'sv2v: helper(s) {sorted(want)} missing')


# ---------------------------------------------------------------- 2. shared state scan
def fresh_expr(v, fresh_names, classes):
    """the expression certainly denotes an object created by this evaluation (or an immutable value)"""
    if isinstance(v, (ast.Dict, ast.List, ast.Set, ast.ListComp, ast.DictComp, ast.SetComp, ast.Constant, ast.JoinedStr, ast.Tuple)): return True
    if isinstance(v, ast.Call):
        f = ast.unparse(v.func)
        if f in ('dict', 'list', 'set', 'bytearray', 'bytes', 'io.BytesIO') or f in classes: return True
        if f in ('self._map_response', 'Inverter._map_response'): return True        # builds and returns a new dict (checked below)
    if isinstance(v, ast.Name) and v.id in fresh_names: return True
    return False


def scan(trees):
    classes = set()
    for t in trees.values():
        for c in ast.walk(t):
            if isinstance(c, ast.ClassDef): classes.add(c.name)
    bases = {}
    self_mut, class_containers, module_containers, globals_w, defaults, decorators, suspicious = {}, [], [], [], [], [], []
    init_fresh = {}        # class -> attributes bound in __init__ to a fresh container
    for mod, t in trees.items():
        for n in t.body:
            if isinstance(n, (ast.Assign, ast.AnnAssign)) and n.value is not None:
                tg = n.targets[0] if isinstance(n, ast.Assign) else n.target
                if isinstance(n.value, (ast.Dict, ast.List, ast.Set, ast.ListComp, ast.DictComp, ast.SetComp)) or \
                        (isinstance(n.value, ast.Call) and ast.unparse(n.value.func) in ('dict', 'list', 'set', 'bytearray', 'defaultdict', 'OrderedDict', 'deque')):
                    module_containers.append(f'{mod}.{ast.unparse(tg)}')
        for c in ast.walk(t):
            if not isinstance(c, ast.ClassDef): continue
            bases[c.name] = [ast.unparse(b) for b in c.bases]
            for n in c.body:
                if isinstance(n, (ast.Assign, ast.AnnAssign)) and n.value is not None:
                    tg = n.targets[0] if isinstance(n, ast.Assign) else n.target
                    if isinstance(n.value, (ast.Dict, ast.List, ast.Set, ast.ListComp, ast.DictComp, ast.SetComp)) or \
                            (isinstance(n.value, ast.Call) and ast.unparse(n.value.func) in ('dict', 'list', 'set', 'bytearray', 'defaultdict', 'OrderedDict', 'deque')):
                        class_containers.append(f'{c.name}.{ast.unparse(tg)}')
                if isinstance(n, (ast.FunctionDef, ast.AsyncFunctionDef)) and n.name == '__init__':
                    for x in ast.walk(n):
                        if isinstance(x, (ast.Assign, ast.AnnAssign)) and x.value is not None:
                            tg = x.targets[0] if isinstance(x, ast.Assign) else x.target
                            if isinstance(tg, ast.Attribute) and isinstance(tg.value, ast.Name) and tg.value.id == 'self' and fresh_expr(x.value, set(), classes):
                                init_fresh.setdefault(c.name, set()).add(tg.attr)
    for mod, t in trees.items():
        owner = {}
        for c in ast.walk(t):
            if isinstance(c, ast.ClassDef):
                for n in c.body:
                    if isinstance(n, (ast.FunctionDef, ast.AsyncFunctionDef)): owner[n] = c.name
        for f in ast.walk(t):
            if not isinstance(f, (ast.FunctionDef, ast.AsyncFunctionDef)): continue
            cls = owner.get(f)
            where = f'{cls + "." if cls else mod + "."}{f.name}'
            for d in f.decorator_list:
                if ast.unparse(d) not in OK_DECORATORS: decorators.append(f'{where}: {ast.unparse(d)}')
            for d in f.args.defaults + [k for k in f.args.kw_defaults if k is not None]:
                if not isinstance(d, (ast.Constant, ast.Attribute, ast.Name, ast.UnaryOp, ast.Lambda)): defaults.append(f'{where}: {ast.unparse(d)}')
            # names bound in this function to fresh objects (and never re-bound to anything else)
            bound = {}
            for x in ast.walk(f):
                if isinstance(x, (ast.Assign, ast.AnnAssign)) and x.value is not None:
                    for tg in (x.targets if isinstance(x, ast.Assign) else [x.target]):
                        if isinstance(tg, ast.Name): bound.setdefault(tg.id, []).append(x.value)
            fresh_names = set()
            for _ in range(3):
                for nme, vals in bound.items():
                    if all(fresh_expr(v, fresh_names, classes) for v in vals): fresh_names.add(nme)
            params = {a.arg for a in f.args.args + f.args.kwonlyargs}
            fresh_names -= params

            def receiver_ok(r):
                if isinstance(r, ast.Name): return r.id in fresh_names
                if isinstance(r, ast.Attribute) and isinstance(r.value, ast.Name) and r.value.id == 'self':
                    # per-instance container created fresh in __init__ of this class (or a base class of it)
                    k, seen = cls, set()
                    stack = [k] if k else []
                    while stack:
                        k = stack.pop()
                        if k in seen: continue
                        seen.add(k)
                        if r.attr in init_fresh.get(k, ()): return True
                        stack += [b for b in bases.get(k, []) if b in bases]
                    return False
                return False
            for x in ast.walk(f):
                if isinstance(x, (ast.Global, ast.Nonlocal)):
                    for nme in x.names: globals_w.append(f'{mod}.{nme}')
                tgs = x.targets if isinstance(x, ast.Assign) else [x.target] if isinstance(x, (ast.AugAssign, ast.AnnAssign)) else \
                    x.targets if isinstance(x, ast.Delete) else []
                for tt in tgs:
                    for el in (tt.elts if isinstance(tt, ast.Tuple) else [tt]):
                        if isinstance(el, ast.Attribute):
                            if isinstance(el.value, ast.Name) and el.value.id == 'self':
                                if f.name != '__init__' and cls: self_mut.setdefault(cls, set()).add(el.attr)
                            elif not receiver_ok(el.value):
                                suspicious.append(f'{where}: {ast.unparse(el)} = ..')
                        elif isinstance(el, ast.Subscript):
                            if not receiver_ok(el.value): suspicious.append(f'{where}: {ast.unparse(el)} = ..')
                if isinstance(x, ast.Call) and isinstance(x.func, ast.Attribute) and x.func.attr in MUTATORS:
                    r = x.func.value
                    # transport.write / buffer.seek etc. on parameters are I/O on objects of the current call
                    if x.func.attr in ('write', 'seek', 'truncate') : continue
                    if not receiver_ok(r): suspicious.append(f'{where}: {ast.unparse(x.func)}(..)')
                if isinstance(x, ast.Call) and ast.unparse(x.func) in ('setattr', 'delattr', 'globals', 'vars', 'locals', 'exec', 'eval', '__import__'):
                    suspicious.append(f'{where}: {ast.unparse(x.func)}(..)')
    # objects created once at class-definition / import time and reachable from every inverter object: class-body and module-level bindings
    # whose value is a constructor call of a class of the package (table rows inside tuples are handled separately: mutable_rows)
    shared_instances = []
    for mod, t in trees.items():
        for n in t.body:
            if isinstance(n, (ast.Assign, ast.AnnAssign)) and isinstance(n.value, ast.Call) and ast.unparse(n.value.func) in classes:
                tg = n.targets[0] if isinstance(n, ast.Assign) else n.target
                shared_instances.append((f'{mod}.{ast.unparse(tg)}', ast.unparse(n.value.func)))
        for c in ast.walk(t):
            if not isinstance(c, ast.ClassDef): continue
            for n in c.body:
                if isinstance(n, (ast.Assign, ast.AnnAssign)) and isinstance(n.value, ast.Call) and ast.unparse(n.value.func) in classes:
                    tg = n.targets[0] if isinstance(n, ast.Assign) else n.target
                    shared_instances.append((f'{c.name}.{ast.unparse(tg)}', ast.unparse(n.value.func)))
    return dict(self_mut=self_mut, bases=bases, shared_instances=sorted(shared_instances), class_containers=sorted(class_containers), module_containers=sorted(module_containers),
                globals_w=sorted(set(globals_w)), defaults=sorted(defaults), decorators=sorted(decorators), suspicious=sorted(set(suspicious)))


def subclasses_closure(names, bases):
    out = set(names)
    changed = True
    while changed:
        changed = False
        for c, bs in bases.items():
            if c not in out and any(b in out for b in bs): out.add(c); changed = True
    return out


def generate():
    trees = {}
    for path in sorted(glob.glob(os.path.join(REPO, 'goodwe', '*.py'))):
        trees[os.path.basename(path)[:-3]] = ast.parse(open(path).read(), path)
    st = trees['sensor']
    cl = {c.name: c for c in st.body if isinstance(c, ast.ClassDef)}
    helper_check(st)
    out = ["(* GENERATED by tools/sv2v.py from goodwe/*.py -- do not edit.  Regenerated on every check run. *)",
           "From Coq Require Import ZArith List String.", "From GW Require Import Prelude Sensors SchedDef.", "Import ListNotations.", "Open Scope Z_scope.", ""]
    out.append(f"Definition schedule_read_value : list rvstmt :=\n  {read_value_prog(cl['Schedule'])}.\n")
    out.append(f"Definition eco_v1_read_value : list rvstmt :=\n  {read_value_prog(cl['EcoModeV1'])}.\n")
    # subclasses of Schedule must not override read_value / encode_value / set_schedule_type
    for c in cl.values():
        if c.name in ('EcoModeV2', 'PeakShavingMode'):
            extra = [n.name for n in c.body if isinstance(n, (ast.FunctionDef, ast.AsyncFunctionDef)) and n.name != '__init__']
            if extra: fail(c, f'{c.name} overrides {extra}')
    sc = scan(trees)
    # sensor definition classes = subclasses of Sensor (inverter.py)
    sensor_classes = subclasses_closure({'Sensor'}, sc['bases'])
    mutating_defs = sorted(c for c in sc['self_mut'] if c in sensor_classes)
    mutating_closure = sorted(subclasses_closure(set(mutating_defs), sc['bases']))
    other = sorted(c for c in sc['self_mut'] if c not in sensor_classes)
    out.append("(* Sensor definition classes with a method (other than __init__) that assigns the definition's own attributes, and what it assigns *)")
    out.append("Definition self_mutating_definitions : list (string * list string) :=\n  [" +
               ';\n   '.join(f'({q(c)}, [{"; ".join(q(a) for a in sorted(sc["self_mut"][c]))}])' for c in mutating_defs) + "].\n")
    out.append(f"Definition self_mutating_definition_classes : list string := [{'; '.join(q(c) for c in mutating_closure)}].\n")
    out.append("(* other classes whose methods assign their own attributes: per-object state of protocol / inverter / command objects *)")
    out.append(f"Definition stateful_object_classes : list string := [{'; '.join(q(c) for c in other)}].\n")
    stateful_closure = sorted(subclasses_closure(set(other), sc['bases']))
    out.append("(* ... with their subclasses; and the objects created at class-definition / import time (shared by all inverter objects) with their class *)")
    out.append(f"Definition stateful_object_classes_closure : list string := [{'; '.join(q(c) for c in stateful_closure)}].")
    out.append("Definition shared_instances : list (string * string) :=\n  [" + ';\n   '.join(f'({q(a)}, {q(b)})' for a, b in sc['shared_instances']) + "].\n")
    out.append(f"Definition class_level_containers : list string := [{'; '.join(q(c) for c in sc['class_containers'])}].")
    out.append(f"Definition module_level_containers : list string := [{'; '.join(q(c) for c in sc['module_containers'])}].")
    out.append(f"Definition globals_written : list string := [{'; '.join(q(c) for c in sc['globals_w'])}].")
    out.append(f"Definition mutable_defaults : list string := [{'; '.join(q(c) for c in sc['defaults'])}].")
    out.append(f"Definition caching_decorators : list string := [{'; '.join(q(c) for c in sc['decorators'])}].")
    out.append(f"Definition suspicious_mutations : list string := [{'; '.join(q(c) for c in sc['suspicious'])}].\n")
    # table rows that are instances of the self-mutating definition classes (the objects themselves are shared: class-level tuples)
    sys.path.insert(0, REPO)
    for m in [k for k in sys.modules if k == 'goodwe' or k.startswith('goodwe.')]: del sys.modules[m]
    import goodwe.et as et, goodwe.dt as dt, goodwe.es as es
    rows = []
    for fam, cls_ in (('ET', et.ET), ('DT', dt.DT), ('ES', es.ES)):
        for name, val in sorted(vars(cls_).items()):
            if isinstance(val, tuple) and val and all(hasattr(s, 'id_') for s in val):
                for s in val:
                    if any(k.__name__ in mutating_closure for k in type(s).__mro__):
                        rows.append(f'({q(fam)}, {q(s.id_)}, {s.offset})')
    out.append("Definition mutable_rows : list (string * string * Z) :=\n  [" + ';\n   '.join(rows) + "].\n")
    # Inverter.__init__ creates its own protocol object; _create_protocol returns a constructor call in every branch
    inv = next(c for c in trees['inverter'].body if isinstance(c, ast.ClassDef) and c.name == 'Inverter')
    cp = next(n for n in inv.body if isinstance(n, ast.FunctionDef) and n.name == '_create_protocol')
    for r in ast.walk(cp):
        if isinstance(r, ast.Return) and not (isinstance(r.value, ast.Call) and ast.unparse(r.value.func) in ('TcpInverterProtocol', 'UdpInverterProtocol')):
            fail(r, '_create_protocol does not return a new protocol object')
    mr = next(n for n in inv.body if isinstance(n, ast.FunctionDef) and n.name == '_map_response')
    mrb = [x for x in mr.body if not (isinstance(x, ast.Expr) and isinstance(x.value, ast.Constant))]
    if ast.unparse(mrb[0]) not in ('result = {}', 'result: dict[str, Any] = {}', 'result: Dict[str, Any] = {}') or ast.unparse(mrb[-1]) != 'return result':
        fail(mr, '_map_response does not build and return a new dict')
    ini = next(n for n in inv.body if isinstance(n, ast.FunctionDef) and n.name == '__init__')
    if not any(ast.unparse(x).startswith('self._protocol: InverterProtocol = self._create_protocol(') or ast.unparse(x).startswith('self._protocol = self._create_protocol(')
               for x in ini.body): fail(ini, 'Inverter.__init__ does not create its own protocol')
    return '\n'.join(out) + '\n'


if __name__ == '__main__':
    try:
        sys.stdout.write(generate())
    except Unsupported as ex:
        print('UNSUPPORTED:', ex); sys.exit(3)

#!/usr/bin/env python3
"""Emits coq/Gen/TablesGen.v from the current working tree: every sensor / setting table of ET, DT, ES as Gallina data
(id, offset, size_, kind with its class-specific parameters), the label dictionaries of const.py, the bodies of the
Calculated / EnumCalculated lambdas (translated from their ASTs into the small expression language of Model/Sensors.v),
the read commands built by the constructors and the (command, sensor list) pairs of read_runtime_data.  Fail-closed."""
from __future__ import annotations
import ast, os, sys, importlib

REPO = os.environ.get('GOODWE_REPO', '/repo')


class Unsupported(Exception):
    pass


def fail(node, msg):
    raise Unsupported(f"tables: {msg}: {ast.unparse(node)[:160] if isinstance(node, ast.AST) else node}")


def cstr(s: str) -> str:
    for ch in s:
        if ord(ch) < 32 or ord(ch) > 126: raise Unsupported(f"non printable character in {s!r}")
    return '"' + s.replace('"', '""') + '"%string'


def z(n: int) -> str:
    return str(n) if n >= 0 else f'({n})'


READERS = {'read_bytes2': ('CRead2', True), 'read_bytes4': ('CRead4', True), 'read_bytes2_signed': ('CRead2S', False),
           'read_bytes4_signed': ('CRead4S', False), 'read_byte': ('CReadByte', False), 'read_voltage': ('CVolt', False),
           'read_current': ('CCurr', False), 'read_grid_mode': ('CGridMode', False)}


def cexpr(e, param):
    if isinstance(e, ast.Constant) and isinstance(e.value, int) and not isinstance(e.value, bool): return f'(CInt {z(e.value)})'
    if isinstance(e, ast.UnaryOp) and isinstance(e.op, ast.USub) and isinstance(e.operand, ast.Constant) and isinstance(e.operand.value, int):
        return f'(CInt {z(-e.operand.value)})'
    if isinstance(e, ast.BinOp) and isinstance(e.op, (ast.Add, ast.Sub, ast.Mult)):
        c = {ast.Add: 'CAdd', ast.Sub: 'CSub', ast.Mult: 'CMul'}[type(e.op)]
        return f'({c} {cexpr(e.left, param)} {cexpr(e.right, param)})'
    if isinstance(e, ast.IfExp):
        t = e.test
        if isinstance(t, ast.Compare) and len(t.ops) == 1 and isinstance(t.ops[0], ast.Eq):
            return f'(CIfEq {cexpr(t.left, param)} {cexpr(t.comparators[0], param)} {cexpr(e.body, param)} {cexpr(e.orelse, param)})'
        fail(e, 'unsupported condition')
    if isinstance(e, ast.Call) and isinstance(e.func, ast.Name) and not e.keywords:
        f = e.func.id
        if f == 'max' and len(e.args) == 2: return f'(CMax {cexpr(e.args[0], param)} {cexpr(e.args[1], param)})'
        if f == 'abs' and len(e.args) == 1: return f'(CAbs {cexpr(e.args[0], param)})'
        if f == 'round' and len(e.args) == 1: return f'(CRound {cexpr(e.args[0], param)})'
        if f in READERS:
            c, has_undef = READERS[f]
            if not (len(e.args) >= 2 and isinstance(e.args[0], ast.Name) and e.args[0].id == param and isinstance(e.args[1], ast.Constant)
                    and isinstance(e.args[1].value, int)): fail(e, 'reader call must be f(data, <literal offset>[, 0])')
            off = e.args[1].value
            if has_undef:
                if len(e.args) == 2: return f'({c} {z(off)} false)'
                if len(e.args) == 3 and isinstance(e.args[2], ast.Constant) and e.args[2].value == 0: return f'({c} {z(off)} true)'
                fail(e, 'undef argument must be 0 or absent')
            if len(e.args) != 2: fail(e, 'unexpected arguments')
            return f'({c} {z(off)})'
    fail(e, 'unsupported expression in a Calculated lambda')


def lambdas_of(fname):
    """(sensor id, occurrence index) -> lambda AST of Calculated / EnumCalculated definitions, in source order"""
    tree = ast.parse(open(os.path.join(REPO, 'goodwe', fname)).read(), fname)
    out = []
    for n in ast.walk(tree):
        if isinstance(n, ast.Call) and isinstance(n.func, ast.Name) and n.func.id in ('Calculated', 'EnumCalculated'):
            if not (n.args and isinstance(n.args[0], ast.Constant) and len(n.args) >= 2 and isinstance(n.args[1], ast.Lambda)):
                fail(n, 'Calculated sensor without a literal id / lambda')
            out.append((n.lineno, n.args[0].value, n.args[1]))
    out.sort()
    return out


def kind_of(s, S, labels_name, getter):
    c = type(s).__name__
    simple = {'Voltage': 'KVoltage', 'Current': 'KCurrent', 'CurrentS': 'KCurrentS', 'Frequency': 'KFrequency', 'Power': 'KPower',
              'PowerS': 'KPowerS', 'Power4': 'KPower4', 'Power4S': 'KPower4S', 'Energy': 'KEnergy', 'Energy4': 'KEnergy4',
              'Energy4W': 'KEnergy4W', 'Energy8': 'KEnergy8', 'Apparent': 'KApparent', 'Apparent4': 'KApparent4', 'Reactive': 'KReactive',
              'Reactive4': 'KReactive4', 'Temp': 'KTemp', 'CellVoltage': 'KCellVoltage', 'Byte': 'KByte', 'ByteH': 'KByteH', 'ByteL': 'KByteL',
              'Integer': 'KInteger', 'IntegerS': 'KIntegerS', 'Long': 'KLong', 'LongS': 'KLongS', 'Timestamp': 'KTimestamp', 'EcoModeV1': 'KEcoModeV1'}
    if c in simple: return simple[c]
    if c == 'Decimal': return f'(KDecimal {z(s.scale)})'
    if c == 'Float': return f'(KFloat {z(s.scale)})'
    if c in ('Enum', 'EnumH', 'EnumL', 'Enum2', 'EnumBitmap4'): return f'(K{c} {labels_name(s._labels)})'
    if c == 'EnumBitmap22': return f'(KEnumBitmap22 {z(s._offsetL)} {labels_name(s._labels)})'
    if c == 'EnumCalculated': return f'(KEnumCalculated {getter} {labels_name(s._labels)})'
    if c == 'Calculated': return f'(KCalculated {getter})'
    if c in ('Schedule', 'EcoModeV2', 'PeakShavingMode'): return f'(KSchedule {int(s.schedule_type)})'
    raise Unsupported(f'unknown sensor class {c} ({s.id_})')


def generate():
    sys.path.insert(0, REPO)
    for m in [m for m in sys.modules if m == 'goodwe' or m.startswith('goodwe.')]: del sys.modules[m]
    goodwe = importlib.import_module('goodwe')
    C = importlib.import_module('goodwe.const')
    S = importlib.import_module('goodwe.sensor')
    out = ["(* GENERATED by tools/tables.py from goodwe/{et,dt,es,const,sensor}.py -- do not edit. *)",
           "From Coq Require Import ZArith List String.", "From GW Require Import Sensors.", "Import ListNotations.", "Open Scope Z_scope.", ""]
    dict_names = {id(v): k for k, v in vars(C).items() if isinstance(v, dict)}
    used = {}

    def labels_name(d):
        n = dict_names.get(id(d))
        if n is None: raise Unsupported('label dictionary that is not a constant of const.py')
        used[n] = d
        return 'L_' + n
    tables = []
    for cls, fname, names in ((goodwe.ET, 'et.py', ['_ET__all_sensors', '_ET__all_sensors_battery', '_ET__all_sensors_battery2', '_ET__all_sensors_meter',
                                                   '_ET__all_sensors_mppt', '_ET__all_settings', '_ET__settings_arm_fw_19', '_ET__settings_arm_fw_22']),
                              (goodwe.DT, 'dt.py', ['_DT__all_sensors', '_DT__all_sensors_meter', '_DT__all_settings', '_DT__settings_single_phase',
                                                   '_DT__settings_three_phase']),
                              (goodwe.ES, 'es.py', ['_ES__sensors', '_ES__all_settings', '_ES__settings_arm_fw_14'])):
        lams = lambdas_of(fname)
        li = 0
        body = []
        for nm in names:
            if not hasattr(cls, nm): raise Unsupported(f'{cls.__name__} has no table {nm}')
            rows = []
            for s in getattr(cls, nm):
                getter = None
                if type(s).__name__ in ('Calculated', 'EnumCalculated'):
                    if li >= len(lams) or lams[li][1] != s.id_: raise Unsupported(f'cannot match the lambda of {s.id_} in {fname}')
                    lam = lams[li][2]; li += 1
                    if len(lam.args.args) != 1: raise Unsupported('lambda must take one argument')
                    getter = cexpr(lam.body, lam.args.args[0].arg)
                rows.append(f'  mkS {cstr(s.id_)} {z(s.offset)} {z(s.size_)} {kind_of(s, S, labels_name, getter)}')
            body.append((nm.lstrip('_').replace('__', '_'), rows))
        if li != len(lams): raise Unsupported(f'{len(lams) - li} Calculated lambdas of {fname} are not in any known table')
        tables += body
    for n, d in sorted(used.items()):
        out.append(f'Definition L_{n} : list (Z * string) := [' + '; '.join(f'({z(k)}, {cstr(v)})' for k, v in d.items()) + '].')
    out.append('')
    for nm, rows in tables:
        out.append(f'Definition {nm} : list sensor := [\n' + ';\n'.join(rows) + '\n].\n')
    out.append('Definition all_tables : list (string * list sensor) := [' + '; '.join(f'({cstr(nm)}, {nm})' for nm, _ in tables) + '].\n')
    # read commands built by the constructors: (first address, register count)
    for cls in (goodwe.ET, goodwe.DT):
        inv = cls('192.0.2.1', 8899)
        for attr in sorted(a for a in vars(inv) if a.startswith('_READ_')):
            cmd = getattr(inv, attr)
            out.append(f'Definition {cls.__name__}{attr} : Z * Z := ({z(cmd.first_address)}, {z(cmd.value)}).')
    out.append('')
    # the meter filters of ET: `return s.offset < <limit>`
    tree = ast.parse(open(os.path.join(REPO, 'goodwe', 'et.py')).read(), 'et.py')
    etc = next(c for c in tree.body if isinstance(c, ast.ClassDef) and c.name == 'ET')
    for fname_, cname in (('_not_extended_meter', 'ET_not_extended_meter_limit'), ('_not_extended_meter2', 'ET_not_extended_meter2_limit')):
        fn = next((n for n in etc.body if isinstance(n, ast.FunctionDef) and n.name == fname_), None)
        if fn is None: raise Unsupported(f'ET.{fname_} not found')
        body = [st for st in fn.body if not (isinstance(st, ast.Expr) and isinstance(st.value, ast.Constant))]
        ok = len(body) == 1 and isinstance(body[0], ast.Return) and isinstance(body[0].value, ast.Compare) and len(body[0].value.ops) == 1 \
            and isinstance(body[0].value.ops[0], ast.Lt) and isinstance(body[0].value.left, ast.Attribute) and body[0].value.left.attr == 'offset' \
            and isinstance(body[0].value.comparators[0], ast.Constant) and isinstance(body[0].value.comparators[0].value, int)
        if not ok: fail(fn, 'meter filter is not `return s.offset < <literal>`')
        out.append(f'Definition {cname} : Z := {z(body[0].value.comparators[0].value)}.')
    out.append('')
    # (command, sensor list) pairs of read_runtime_data, in source order
    for cls, fname in ((goodwe.ET, 'et.py'), (goodwe.DT, 'dt.py')):
        tree = ast.parse(open(os.path.join(REPO, 'goodwe', fname)).read(), fname)
        fn = next(n for c in tree.body if isinstance(c, ast.ClassDef) and c.name == cls.__name__ for n in c.body
                  if isinstance(n, ast.AsyncFunctionDef) and n.name == 'read_runtime_data')
        pairs, last = [], None
        for n in sorted((x for x in ast.walk(fn) if isinstance(x, (ast.Assign, ast.Call))), key=lambda x: (x.lineno, x.col_offset)):
            if isinstance(n, ast.Assign) and isinstance(n.targets[0], ast.Name) and n.targets[0].id == 'response':
                v = n.value
                if isinstance(v, ast.Await): v = v.value
                if isinstance(v, ast.Call) and isinstance(v.func, ast.Attribute) and v.func.attr == '_read_from_socket' and isinstance(v.args[0], ast.Attribute):
                    last = v.args[0].attr
                else: fail(n, 'unexpected assignment to response in read_runtime_data')
            if isinstance(n, ast.Call) and isinstance(n.func, ast.Attribute) and n.func.attr == '_map_response':
                if not (isinstance(n.args[0], ast.Name) and n.args[0].id == 'response' and isinstance(n.args[1], ast.Attribute)): fail(n, 'unexpected _map_response call')
                pairs.append((last, n.args[1].attr))
        out.append(f'Definition {cls.__name__}_read_pairs : list (string * string) := [' + '; '.join(f'({cstr(a)}, {cstr(b)})' for a, b in pairs) + '].')
    return '\n'.join(out) + '\n'


if __name__ == '__main__':
    try:
        sys.stdout.write(generate())
    except Unsupported as ex:
        print('UNSUPPORTED:', ex); sys.exit(3)

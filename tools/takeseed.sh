#!/bin/sh
# usage: tools/takeseed.sh <Cxx> <k>  -- confirms /root/wt/<Cxx>/seed_out/m<k> in its worktree (tools/confirm_seed.sh) and, if confirmed, keeps it as seeded/<Cxx>-m<k>
p=$1; k=$2; wt=/root/wt/$p; sd=$wt/seed_out/m$k
[ -f "$sd/patch.diff" ] && [ -f "$sd/demo.py" ] && [ -f "$sd/meta.json" ] || { echo "$p-m$k: incomplete seed directory"; exit 1; }
res=$(sh "$(dirname "$0")/confirm_seed.sh" "$wt" "$sd" 2>&1 | tail -1)
echo "$p-m$k: $res"
case "$res" in CONFIRMED*) ;; *) exit 1;; esac
dst="$(dirname "$0")/../seeded/$p-m$k"; mkdir -p "$dst"
cp "$sd/patch.diff" "$sd/demo.py" "$dst/"
python3 - "$sd/meta.json" "$dst/meta.json" "$res" <<'PY'
import json, sys
m = json.load(open(sys.argv[1]))
m['origin'] = 'written by an independent sub-agent that saw only the property text and a scratch worktree'
m['confirmed_by'] = 'tools/confirm_seed.sh in a scratch worktree: demo passes on the clean tree, with the patch the unedited suite still passes and the demo fails: ' + sys.argv[3][len('CONFIRMED '):]
json.dump(m, open(sys.argv[2], 'w'), indent=1)
PY
